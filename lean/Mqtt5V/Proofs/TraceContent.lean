import Mqtt5V.Model.TraceContent
namespace Mqtt5V.Proofs.TraceContent
open Mqtt5V.Model.TraceContent

theorem run_append (s : S) (a b : List Ev) : run s (a ++ b) = (run s a).bind (run · b) := by
  induction a generalizing s with
  | nil => simp [run]
  | cons e es ih =>
    simp only [List.cons_append, run]
    cases step s e with
    | none => simp
    | some s1 => simp [ih]

/-- what the state remembers is what an earlier API call said, and an operation has one API call -/
def Inv (hist : List Ev) (s : S) : Prop := ∀ op c, s.said op = some c ↔ Ev.init op c ∈ hist

theorem inv_step (hist : List Ev) (s : S) (e : Ev) (s' : S) (I : Inv hist s) (h : step s e = some s') : Inv (hist ++ [e]) s' := by
  cases e with
  | init op c =>
    simp only [step] at h; split at h
    · simp at h
    · rename_i hn
      simp only [Option.some.injEq] at h; subst h
      simp only [Option.isSome_iff_exists, not_exists] at hn
      intro op' c'
      simp only [List.mem_append, List.mem_singleton, Ev.init.injEq]
      by_cases hop : op' = op
      · subst hop; simp only [if_true, Option.some.injEq]
        constructor
        · rintro rfl; simp
        · rintro (h1 | h1)
          · exact absurd ((I op' c').2 h1) (hn _)
          · simp at h1; exact h1.symm
      · simp only [hop, if_false, false_and, or_false]; exact I op' c'
  | req op c =>
    simp only [step] at h; split at h
    · simp only [Option.some.injEq] at h; subst h
      intro op' c'; simp only [List.mem_append, List.mem_singleton]
      constructor
      · intro h1; exact Or.inl ((I op' c').1 h1)
      · rintro (h1 | h1)
        · exact (I op' c').2 h1
        · cases h1
    · simp at h

theorem inv_run : ∀ (tr pre : List Ev) (s s' : S), Inv pre s → run s tr = some s' → Inv (pre ++ tr) s' := by
  intro tr
  induction tr with
  | nil => intro pre s s' hI hr; simp [run] at hr; subst hr; simpa using hI
  | cons e es ih =>
    intro pre s s' hI hr
    simp only [run] at hr
    cases h1 : step s e with
    | none => simp [h1] at hr
    | some s1 =>
      simp [h1] at hr
      have := ih (pre ++ [e]) s1 s' (inv_step pre s e s1 hI h1) hr
      simpa [List.append_assoc] using this

/-- **C01 / C14 / C17 on accepted event lists**: every request packet written for an operation says exactly what the operation's API call
said, and that API call came before -/
theorem request_says_what_was_asked {pre post : List Ev} {op c : Nat} (hacc : accepts (pre ++ .req op c :: post) = true) :
    Ev.init op c ∈ pre := by
  simp only [accepts, Option.isSome_iff_exists] at hacc
  obtain ⟨s, hr⟩ := hacc
  rw [run_append] at hr
  cases h1 : run init pre with
  | none => simp [h1] at hr
  | some s1 =>
    simp only [h1, Option.bind_some, run] at hr
    have I : Inv pre s1 := by simpa using inv_run pre [] init s1 (by intro op c; simp [init]) h1
    cases h2 : step s1 (.req op c) with
    | none => simp [h2] at hr
    | some s2 =>
      simp only [step] at h2; split at h2
      · rename_i hs; exact (I op c).1 hs
      · simp at h2

end Mqtt5V.Proofs.TraceContent
