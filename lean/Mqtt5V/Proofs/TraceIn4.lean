import Mqtt5V.Proofs.TraceIn3
namespace Mqtt5V.Proofs.TraceIn
open Mqtt5V.Model.TraceIn

/-! ### message conservation: what is delivered was received, no more often than received -/
def qcM (q : List (Nat × Nat)) (p m : Nat) : Nat := q.countP (fun x => x.1 == p && x.2 == m)
def isAckM (p m : Nat) : Item → Bool | .ackI p' m' => p' == p && m' == m | _ => false
def isRecM (p m : Nat) : Item → Bool | .recI p' m' => p' == p && m' == m | _ => false
def isCompM (p m : Nat) : Item → Bool | .compI p' m' => p' == p && m' == m | _ => false
def storedM (s : S) (q p m : Nat) : Nat := s.stored.countP (fun x => x.1 == q && x.2.1 == p && x.2.2 == m)
def waitM (s : S) (p m : Nat) : Nat := (s.waiter p == some m).toNat

/-- the places where the client holds message `m` of the exchange with identifier `p`, by QoS -/
def hold (s : S) (rem : List Item) (q p m : Nat) : Nat :=
  storedM s q p m +
  (if q = 1 then qcM s.ackQ p m + rem.countP (isAckM p m) else 0) +
  (if q = 2 then qcM s.recQ p m + rem.countP (isRecM p m) + waitM s p m + qcM s.compQ p m + rem.countP (isCompM p m) else 0)

def InvM (hist : List Ev) (s : S) (rem : List Item) : Prop :=
  ∀ q p m, cnt (isDeliverMsg q p m) hist + hold s rem q p m ≤ cnt (isRxPubMsg q p m) hist

theorem invM_step {hist : List Ev} {s s' : S} {rem rem' : List Item} {e : Ev} (I : InvM hist s rem)
    (h : ∀ q p m, (isDeliverMsg q p m e).toNat + hold s' rem' q p m ≤ hold s rem q p m + (isRxPubMsg q p m e).toNat) :
    InvM (hist ++ [e]) s' rem' := by
  intro q p m; have := I q p m; have := h q p m; simp only [cnt_snoc']; omega

theorem invM_weaken {hist : List Ev} {s s' : S} {rem rem' : List Item} (I : InvM hist s rem)
    (h : ∀ q p m, hold s' rem' q p m ≤ hold s rem q p m) : InvM hist s' rem' := by
  intro q p m; have := I q p m; have := h q p m; omega

theorem qcM_append (q : List (Nat × Nat)) (x : Nat × Nat) (p m : Nat) : qcM (q ++ [x]) p m = qcM q p m + (x.1 == p && x.2 == m).toNat := by
  simp only [qcM, List.countP_append, List.countP_cons, List.countP_nil]
  cases (x.1 == p && x.2 == m) <;> simp

theorem storedM_append (st : List (Nat × Nat × Nat)) (x : Nat × Nat × Nat) (q p m : Nat) :
    List.countP (fun x => x.1 == q && x.2.1 == p && x.2.2 == m) (st ++ [x]) =
      List.countP (fun x => x.1 == q && x.2.1 == p && x.2.2 == m) st + (x.1 == q && x.2.1 == p && x.2.2 == m).toNat := by
  simp only [List.countP_append, List.countP_cons, List.countP_nil]
  cases (x.1 == q && x.2.1 == p && x.2.2 == m) <;> simp

theorem pop_specM {q : List (Nat × Nat)} {pid m : Nat} {rest : List (Nat × Nat)} (h : pop q pid = some (m, rest)) :
    ∀ p m', qcM q p m' = qcM rest p m' + (pid == p && m == m').toNat := by
  rw [pop_head h]
  intro p m'; simp only [qcM, List.countP_cons]
  cases (pid == p && m == m') <;> simp

/-- `wait_pubrel` holds the message in the waiter or, with a fast PUBREL, in the PUBCOMP queue; an older waiter's message is dropped -/
theorem waitRel_hold (s : S) (pid msg : Nat) (rem : List Item) (q p m : Nat) :
    hold (waitRel s pid msg) rem q p m ≤ hold s rem q p m + (q == 2 && pid == p && msg == m).toNat := by
  unfold waitRel
  split
  · simp only [hold, storedM, waitM, qcM_append, upd]
    by_cases hq : q = 2
    · subst hq; simp only [if_true]
      by_cases hp : p = pid
      · subst hp; simp; cases hm : (msg == m) <;> simp <;> omega
      · have h1 : (pid == p) = false := by simpa using fun h : pid = p => hp h.symm
        simp [hp, h1]
    · have : (q == 2) = false := by simpa using hq
      simp [hq, this]
  · simp only [hold, storedM, waitM, upd]
    by_cases hq : q = 2
    · subst hq; simp only [if_true]
      by_cases hp : p = pid
      · subst hp; simp
        cases hm : (msg == m)
        · have : ¬ msg = m := by simpa using hm
          simp [this]
        · have : msg = m := by simpa using hm
          subst this; simp; cases (s.waiter p == some msg) <;> simp <;> omega
      · have h1 : (pid == p) = false := by simpa using fun h : pid = p => hp h.symm
        simp [hp, h1]
    · have : (q == 2) = false := by simpa using hq
      simp [hq, this]

end Mqtt5V.Proofs.TraceIn
