import Mqtt5V.Model.PidAlloc
/-! Invariant and set-refinement lemmas for the packet-id allocator model. -/
namespace Mqtt5V.Proofs.PidAlloc
open Mqtt5V.Model.PidAlloc

/-- the abstraction: which ids does the interval list call free -/
def isFree (l : St) (p : Nat) : Prop := ∃ iv ∈ l, iv.stop < p ∧ p ≤ iv.start

@[simp] theorem isFree_nil (p : Nat) : isFree [] p ↔ False := by simp [isFree]
@[simp] theorem isFree_cons (a : Iv) (l : St) (p : Nat) :
    isFree (a :: l) p ↔ ((a.stop < p ∧ p ≤ a.start) ∨ isFree l p) := by simp [isFree]

/-- ascending, non-empty, non-adjacent, bounded intervals -/
def AInv (l : St) : Prop :=
  l.Pairwise (fun a b => a.start < b.stop) ∧ ∀ a ∈ l, a.stop < a.start ∧ a.start ≤ 65535

theorem ainv_nil : AInv [] := by simp [AInv]

theorem ainv_cons {a : Iv} {l : St} :
    AInv (a :: l) ↔ ((∀ b ∈ l, a.start < b.stop) ∧ a.stop < a.start ∧ a.start ≤ 65535 ∧ AInv l) := by
  simp only [AInv, List.pairwise_cons, List.mem_cons, forall_eq_or_imp]
  constructor
  · rintro ⟨⟨h1, h2⟩, ⟨h3, h4⟩, h5⟩; exact ⟨h1, h3, h4, h2, h5⟩
  · rintro ⟨h1, h3, h4, h2, h5⟩; exact ⟨⟨h1, h2⟩, ⟨h3, h4⟩, h5⟩

theorem ainv_init : AInv init := by
  simp [AInv, init, MAX_PACKET_ID]

theorem isFree_bounds {l : St} (h : AInv l) {q : Nat} (hq : isFree l q) : 1 ≤ q ∧ q ≤ 65535 := by
  obtain ⟨iv, hm, h1, h2⟩ := hq
  have := h.2 iv hm
  omega

/-- every free id of a list below which `a` sits is above `a.start` -/
theorem isFree_gt {a : Iv} {l : St} (h : ∀ b ∈ l, a.start < b.stop) {q : Nat} (hq : isFree l q) : a.start < q := by
  obtain ⟨iv, hm, h1, _⟩ := hq
  have := h iv hm
  omega

theorem allocate_spec (l : St) (h : AInv l) :
    (l = [] → allocate l = (0, [])) ∧
    (l ≠ [] →
      (allocate l).1 ≠ 0 ∧ isFree l (allocate l).1 ∧ (∀ q, isFree l q → (allocate l).1 ≤ q) ∧ AInv (allocate l).2 ∧
      (∀ q, isFree (allocate l).2 q ↔ (isFree l q ∧ q ≠ (allocate l).1))) := by
  constructor
  · intro h0; subst h0; rfl
  · intro hne
    match l, h with
    | a :: r, h =>
      rw [ainv_cons] at h
      obtain ⟨h1, h2, h3, h4⟩ := h
      have hr : ∀ q, isFree r q → a.start < q := fun q hq => isFree_gt h1 hq
      simp only [allocate]
      split
      · rename_i heq
        refine ⟨by simp, by simp; omega, ?_, h4, ?_⟩
        · intro q hq; simp at hq ⊢
          rcases hq with hq | hq
          · omega
          · have := hr q hq; omega
        · intro q; simp
          constructor
          · intro hq; have := hr q hq; exact ⟨Or.inr hq, by omega⟩
          · rintro ⟨hq | hq, hne⟩
            · omega
            · exact hq
      · rename_i hneq
        refine ⟨by simp, by simp; omega, ?_, ?_, ?_⟩
        · intro q hq; simp at hq ⊢
          rcases hq with hq | hq
          · omega
          · have := hr q hq; omega
        · rw [ainv_cons]; exact ⟨h1, by simp; omega, h3, h4⟩
        · intro q; simp
          constructor
          · rintro (hq | hq)
            · exact ⟨Or.inl (by omega), by omega⟩
            · have := hr q hq; exact ⟨Or.inr hq, by omega⟩
          · rintro ⟨hq | hq, hne⟩
            · exact Or.inl (by omega)
            · exact Or.inr hq

theorem pred16_of_pos {p : Nat} (h1 : 1 ≤ p) (h2 : p ≤ 65535) : pred16 p = p - 1 := by
  unfold pred16; omega

/-- every `stop` in `free p l` is an old `stop` or `p - 1` -/
theorem free_stops (p : Nat) (hp1 : 1 ≤ p) (hp2 : p ≤ 65535) (l : St) :
    ∀ x ∈ free p l, (∃ y ∈ l, y.stop = x.stop) ∨ x.stop = p - 1 := by
  have hp := pred16_of_pos hp1 hp2
  fun_induction free p l <;> simp_all <;> grind

/-- `free` inserts exactly `p` into the free set -/
theorem free_isFree (p : Nat) (hp1 : 1 ≤ p) (hp2 : p ≤ 65535) (l : St) (h : AInv l) (hnf : ¬ isFree l p) :
    ∀ q, isFree (free p l) q ↔ (isFree l q ∨ q = p) := by
  have hp := pred16_of_pos hp1 hp2
  fun_induction free p l with
  | case1 => intro q; simp; omega
  | case2 a h1 h2 => intro q; simp_all [ainv_cons]; omega
  | case3 a h1 h2 => intro q; simp_all [ainv_cons]; omega
  | case4 a h1 h2 => intro q; simp_all [ainv_cons]; omega
  | case5 a h1 h2 => intro q; simp_all [ainv_cons]; omega
  | case6 a b rest hb ih =>
    intro q
    rw [ainv_cons] at h
    have hnf' : ¬ isFree (b :: rest) p := by intro hh; exact hnf (by simp at hh ⊢; exact Or.inr hh)
    have := ih h.2.2.2 hnf' q
    simp only [isFree_cons] at this ⊢
    rw [this]; grind
  | case7 a b rest hb ha h1 h2 =>
    intro q; rw [ainv_cons, ainv_cons] at h; simp_all; grind
  | case8 a b rest hb ha h1 h2 =>
    intro q; rw [ainv_cons, ainv_cons] at h; simp_all; grind
  | case9 a b rest hb ha h1 h2 =>
    intro q; rw [ainv_cons, ainv_cons] at h; simp_all; grind
  | case10 a b rest hb ha h1 h2 =>
    intro q; rw [ainv_cons, ainv_cons] at h; simp_all; grind
  | case11 a b rest hb ha h1 =>
    intro q; rw [ainv_cons, ainv_cons] at h; simp_all; grind
  | case12 a b rest hb ha h1 =>
    intro q; rw [ainv_cons, ainv_cons] at h; simp_all; grind

/-- `free` keeps the representation invariant when `p` is a valid id that is not free -/
theorem free_ainv (p : Nat) (hp1 : 1 ≤ p) (hp2 : p ≤ 65535) (l : St) (h : AInv l) (hnf : ¬ isFree l p) :
    AInv (free p l) := by
  have hp := pred16_of_pos hp1 hp2
  fun_induction free p l with
  | case1 => simp [ainv_cons, ainv_nil]; omega
  | case2 a h1 h2 => simp_all [ainv_cons, ainv_nil]; omega
  | case3 a h1 h2 => simp_all [ainv_cons, ainv_nil]; omega
  | case4 a h1 h2 => simp_all [ainv_cons, ainv_nil]; omega
  | case5 a h1 h2 => simp_all [ainv_cons, ainv_nil]; omega
  | case6 a b rest hb ih =>
    have hnf' : ¬ isFree (b :: rest) p := by intro hh; exact hnf (by simp at hh ⊢; exact Or.inr hh)
    have hs := free_stops p hp1 hp2 (b :: rest)
    rw [ainv_cons] at h
    obtain ⟨h1, h2, h3, h4⟩ := h
    have h4' := h4
    rw [ainv_cons] at h4'
    rw [ainv_cons]
    refine ⟨?_, h2, h3, ih h4 hnf'⟩
    intro x hx
    rcases hs x hx with ⟨y, hy, hyx⟩ | hxp
    · have := h1 y hy; omega
    · have := h1 b (by simp); omega
  | case7 a b rest hb ha h1 h2 =>
    rw [ainv_cons, ainv_cons] at h; simp_all [ainv_cons]; grind
  | case8 a b rest hb ha h1 h2 =>
    rw [ainv_cons, ainv_cons] at h; simp_all [ainv_cons]; grind
  | case9 a b rest hb ha h1 h2 =>
    rw [ainv_cons, ainv_cons] at h; simp_all [ainv_cons]; grind
  | case10 a b rest hb ha h1 h2 =>
    rw [ainv_cons, ainv_cons] at h; simp_all [ainv_cons]; grind
  | case11 a b rest hb ha h1 =>
    rw [ainv_cons, ainv_cons] at h; simp_all [ainv_cons]; grind
  | case12 a b rest hb ha h1 =>
    rw [ainv_cons, ainv_cons] at h; simp_all [ainv_cons]; grind

end Mqtt5V.Proofs.PidAlloc
