import Mqtt5V.Model.Sender
/-! Lemmas about the sender model: the throttled split, the token (quota) invariant, idleness. -/
namespace Mqtt5V.Proofs.Sender
open Mqtt5V.Model.Sender

def nThr (l : List SReq) : Nat := (l.filter (·.throttled)).length

@[simp] theorem nThr_nil : nThr [] = 0 := rfl
@[simp] theorem nThr_cons (r : SReq) (l : List SReq) : nThr (r :: l) = (if r.throttled then 1 else 0) + nThr l := by
  by_cases h : r.throttled <;> simp [nThr, h] <;> omega
@[simp] theorem nThr_append (a b : List SReq) : nThr (a ++ b) = nThr a + nThr b := by simp [nThr]

theorem split_quota (q : List SReq) (k : Nat) : (split q k).2.2 + nThr (split q k).1 = k := by
  induction q generalizing k with
  | nil => simp [split]
  | cons r rs ih =>
    simp only [split]
    split
    · rename_i ht; have := ih k; simp_all
    · split
      · rename_i ht hk
        have h := ih (k - 1)
        have ht' : r.throttled = true := by simpa using ht
        simp only [nThr_cons, ht', if_true]
        omega
      · have := ih k; simp_all

theorem split_batch_sublist (q : List SReq) (k : Nat) : (split q k).1.Sublist q := by
  induction q generalizing k with
  | nil => simp [split]
  | cons r rs ih =>
    simp only [split]
    split
    · exact (ih k).cons_cons r
    · split
      · exact (ih (k - 1)).cons_cons r
      · exact (ih k).cons r

theorem split_rest_sublist (q : List SReq) (k : Nat) : (split q k).2.1.Sublist q := by
  induction q generalizing k with
  | nil => simp [split]
  | cons r rs ih =>
    simp only [split]
    split
    · exact (ih k).cons r
    · split
      · exact (ih (k - 1)).cons r
      · exact (ih k).cons_cons r

/-- what stays behind is throttled, and if anything stays behind the quota is exhausted -/
theorem split_rest (q : List SReq) (k : Nat) :
    (∀ r ∈ (split q k).2.1, r.throttled = true) ∧ ((split q k).2.1 ≠ [] → (split q k).2.2 = 0) := by
  induction q generalizing k with
  | nil => simp [split]
  | cons r rs ih =>
    simp only [split]
    split
    · exact ih k
    · split
      · exact ih (k - 1)
      · rename_i ht hk
        have hk0 : k = 0 := by omega
        subst hk0
        have h := ih 0
        have hq := split_quota rs 0
        refine ⟨?_, fun _ => by show (split rs 0).2.2 = 0; omega⟩
        intro x hx
        simp at hx
        rcases hx with rfl | hx
        · simpa using ht
        · exact h.1 x hx

/-- batch ++ rest is a permutation of the queue: nothing dropped, nothing duplicated -/
theorem split_perm (q : List SReq) (k : Nat) : ((split q k).1 ++ (split q k).2.1).Perm q := by
  induction q generalizing k with
  | nil => simp [split]
  | cons r rs ih =>
    simp only [split]
    split
    · exact (ih k).cons r
    · split
      · exact (ih (k - 1)).cons r
      · exact (List.perm_middle.trans ((ih k).cons r))

/-- the token invariant: on a throttling connection, quota plus the throttled requests that were handed to the
stream since the last resend and whose reply is outstanding never exceeds the limit (uint16 never wraps) -/
def TokInv (s : S) : Prop :=
  s.limit ≠ MAX_LIMIT → s.quota + nThr (s.inflight.getD []) + nThr s.unanswered ≤ s.limit ∧ s.limit < MAX_LIMIT

/-- requests as the client builds them: the terminal flag is only used by DISCONNECT, never together with throttled -/
def ReqWF (r : SReq) : Prop := r.terminal = true → r.throttled = false

def QueueWF (s : S) : Prop := ∀ r ∈ s.queue, ReqWF r

theorem doWrite_tok (s : S) (h : TokInv s) (hq : QueueWF s) : TokInv (doWrite s).1 := by
  unfold doWrite
  split
  · exact h
  · rename_i hc
    have hnone : s.inflight = none := by
      cases hi : s.inflight with
      | none => rfl
      | some _ => simp [hi] at hc
    split
    · rename_i t ht
      intro hl
      have := h hl
      have htm := List.find?_some ht
      have hmem := List.mem_of_find?_eq_some ht
      have h0 : t.throttled = false := hq t hmem (by simpa using htm)
      simp only [hnone, Option.getD_none, nThr_nil, Option.getD_some, nThr_cons, h0] at this ⊢
      simp; omega
    · split
      · intro hl; simp_all
      · simp only []
        split
        · exact h
        · intro hl
          have h1 := split_quota s.queue s.quota
          have h2 := h hl
          simp only [hnone, Option.getD_none, nThr_nil, Option.getD_some] at h2 ⊢
          omega

theorem doWrite_queue_sub (s : S) : ∀ r ∈ (doWrite s).1.queue, r ∈ s.queue := by
  unfold doWrite
  split
  · intro r hr; exact hr
  · split
    · intro r hr; exact List.mem_of_mem_erase hr
    · split
      · intro r hr; simp at hr
      · simp only []
        split
        · intro r hr; exact hr
        · intro r hr; exact (split_rest_sublist s.queue s.quota).subset hr

theorem doWrite_qwf (s : S) (hq : QueueWF s) : QueueWF (doWrite s).1 :=
  fun r hr => hq r (doWrite_queue_sub s r hr)

theorem doWrite_other (s : S) : (doWrite s).1.unanswered = s.unanswered ∧ (doWrite s).1.limit = s.limit ∧ (doWrite s).1.rm = s.rm := by
  unfold doWrite
  split
  · simp
  · split
    · simp
    · split
      · simp
      · simp only []
        split <;> simp

def ReqOK (r : SReq) : Prop := ReqWF r ∧ (r.throttled = true → r.awaits = true)

/-- everything the sender holds is a request as the client builds them; the stored Receive Maximum fits uint16 -/
def AllOK (s : S) : Prop :=
  (∀ r ∈ s.queue, ReqOK r) ∧ (∀ r ∈ s.inflight.getD [], ReqOK r) ∧ (∀ r ∈ s.unanswered, ReqOK r) ∧ (∀ n, s.rm = some n → n ≤ 65535)

def Inv (s : S) : Prop := TokInv s ∧ AllOK s

theorem inv_init : Inv {} := by
  refine ⟨fun h => absurd rfl h, ?_⟩
  simp [AllOK]

theorem doWrite_inflight_sub (s : S) : ∀ r ∈ (doWrite s).1.inflight.getD [], r ∈ s.inflight.getD [] ∨ r ∈ s.queue := by
  unfold doWrite
  split
  · intro r hr; exact Or.inl hr
  · split
    · rename_i t ht; intro r hr; simp at hr; subst hr; exact Or.inr (List.mem_of_find?_eq_some ht)
    · split
      · intro r hr; simp at hr; exact Or.inr hr
      · simp only []
        split
        · intro r hr; exact Or.inl hr
        · intro r hr; simp at hr; exact Or.inr ((split_batch_sublist s.queue s.quota).subset hr)

theorem doWrite_inv (s : S) (h : Inv s) : Inv (doWrite s).1 := by
  obtain ⟨ht, hq, hi, hu, hr⟩ := h
  have hqwf : QueueWF s := fun r hr => (hq r hr).1
  refine ⟨doWrite_tok s ht hqwf, ?_, ?_, ?_, ?_⟩
  · intro r hr'; exact hq r (doWrite_queue_sub s r hr')
  · intro r hr'; rcases doWrite_inflight_sub s r hr' with h1 | h1
    · exact hi r h1
    · exact hq r h1
  · rw [(doWrite_other s).1]; exact hu
  · rw [(doWrite_other s).2.2]; exact hr

theorem nThr_filter_awaits (b : List SReq) (h : ∀ r ∈ b, ReqOK r) : nThr (b.filter (·.awaits)) = nThr b := by
  induction b with
  | nil => rfl
  | cons r rs ih =>
    have hr := h r (by simp)
    have ih' := ih (fun x hx => h x (by simp [hx]))
    by_cases ha : r.awaits = true
    · simp [List.filter_cons, ha, ih']
    · have : r.throttled = false := by
        cases ht : r.throttled with
        | false => rfl
        | true => exact absurd (hr.2 ht) ha
      simp [List.filter_cons, ha, ih', this]

theorem nThr_erase (l : List SReq) (r : SReq) (h : r ∈ l) : nThr (l.erase r) + (if r.throttled then 1 else 0) = nThr l := by
  induction l with
  | nil => cases h
  | cons a as ih =>
    by_cases ha : a = r
    · subst ha; simp [List.erase_cons_head]; omega
    · have hm : r ∈ as := by simp at h; rcases h with h | h; exact absurd h.symm ha; exact h
      have : (a :: as).erase r = a :: as.erase r := by simp [List.erase_cons, ha]
      rw [this]; simp only [nThr_cons]; have := ih hm; omega

theorem resend_inv (s : S) (h : Inv s) : Inv (resend s).1 := by
  unfold resend
  split
  · exact h
  · rename_i hi
    obtain ⟨ht, hq, hif, hu, hr⟩ := h
    apply doWrite_inv
    have hnone : s.inflight = none := by cases hx : s.inflight <;> simp_all
    refine ⟨?_, ?_, ?_, ?_, ?_⟩
    · intro hl
      simp only [hnone, Option.getD_none, nThr_nil] at hl ⊢
      constructor
      · omega
      · cases hrm : s.rm with
        | none => simp [hrm] at hl
        | some n =>
          have := hr n hrm
          simp only [hrm, Option.getD_some, MAX_LIMIT] at hl ⊢
          omega
    · intro r hr'
      simp only [sortReqs, List.mem_mergeSort, List.mem_append] at hr'
      rcases hr' with h1 | h1
      · exact hu r h1
      · exact hq r h1
    · simp [hnone]
    · simp
    · exact hr

theorem step_inv (s : S) (i : In) (h : Inv s)
    (hwf : match i with | .send r => ReqWF r | .setRm (some n) => n ≤ 65535 | _ => True) : Inv (step s i).1 := by
  obtain ⟨ht, hq, hi, hu, hr⟩ := h
  cases i with
  | send r =>
    simp only [step]
    apply doWrite_inv
    refine ⟨ht, ?_, hi, hu, hr⟩
    intro x hx
    simp at hx
    rcases hx with hx | hx
    · exact hq x hx
    · subst hx
      refine ⟨hwf, fun h1 => ?_⟩
      simp at h1 ⊢; exact Or.inr h1
  | wdone ec =>
    simp only [step]
    cases hb : s.inflight with
    | none => exact ⟨ht, hq, hi, hu, hr⟩
    | some b =>
      have hib : ∀ r ∈ b, ReqOK r := by simpa [hb] using hi
      cases ec with
      | tryAgain =>
        apply resend_inv
        refine ⟨?_, ?_, by simp, hu, hr⟩
        · intro hl; have := ht hl; simp only [hb, Option.getD_some, Option.getD_none, nThr_nil] at this ⊢; omega
        · intro r hr'; simp at hr'; rcases hr' with h1 | h1; exact hib r h1; exact hq r h1
      | noRecovery =>
        refine ⟨?_, hq, by simp, hu, hr⟩
        intro hl; have := ht hl; simp only [hb, Option.getD_some, Option.getD_none, nThr_nil] at this ⊢; omega
      | aborted =>
        refine ⟨?_, hq, by simp, hu, hr⟩
        intro hl; have := ht hl; simp only [hb, Option.getD_some, Option.getD_none, nThr_nil] at this ⊢; omega
      | ok =>
        apply doWrite_inv
        refine ⟨?_, hq, by simp, ?_, hr⟩
        · intro hl; have := ht hl
          simp only [hb, Option.getD_some, Option.getD_none, nThr_nil, nThr_append, nThr_filter_awaits b hib] at this ⊢
          omega
        · intro r hr'; simp at hr'; rcases hr' with h1 | h1; exact hu r h1; exact hib r h1.1
  | ack id =>
    simp only [step]
    cases hf : s.unanswered.find? (·.id == id) with
    | none => exact ⟨ht, hq, hi, hu, hr⟩
    | some r =>
      have hmem : r ∈ s.unanswered := List.mem_of_find?_eq_some hf
      have he := nThr_erase s.unanswered r hmem
      have hu' : ∀ x ∈ s.unanswered.erase r, ReqOK x := fun x hx => hu x (List.mem_of_mem_erase hx)
      simp only []
      split
      · rename_i hc
        simp only [Bool.and_eq_true, bne_iff_ne, ne_eq] at hc
        apply doWrite_inv
        refine ⟨?_, hq, hi, hu', hr⟩
        intro hl
        have := ht hl
        simp only [hc.1, if_true] at he
        simp only [MAX_LIMIT] at *
        have hw : (s.quota + 1) % 65536 = s.quota + 1 := by omega
        simp only [hw]
        omega
      · refine ⟨?_, hq, hi, hu', hr⟩
        intro hl
        have := ht hl
        simp only [] at hl ⊢
        split at he <;> omega
  | setRm rm =>
    refine ⟨ht, hq, hi, hu, ?_⟩
    intro n hn
    simp only [step] at hn
    subst hn
    exact hwf
  | resendRead => exact resend_inv s ⟨ht, hq, hi, hu, hr⟩
  | cancel =>
    simp only [step]
    exact ⟨ht, by simp, hi, hu, hr⟩

end Mqtt5V.Proofs.Sender
