import Mqtt5V.Model.Mutex
/-! Invariant of the async_mutex model with its history bookkeeping, preserved by every legal step. -/
namespace Mqtt5V.Proofs.Mutex
open Mqtt5V.Model.Mutex

def pendingAborts (p : List Task) : List Nat :=
  p.filterMap fun t => match t with | .ev (.abort w) => some w | _ => none

def notIn (l : List Nat) (w : Nat) : Bool := !l.contains w

structure GInv (g : G) : Prop where
  nodupA : g.arrival.Nodup
  part : g.grantedP ++ live g.m.waiting = g.arrival.filter (notIn g.abortedP)
  abSub : ∀ w ∈ g.abortedP, w ∈ g.arrival
  unlockedEmpty : g.m.locked = false → g.m.waiting = [] ∧ g.delivered = false
  pend : pendingGrants g.m.posted = if g.m.locked && !g.delivered then g.grantedP.getLast?.toList else []
  lockedNe : g.m.locked = true → g.grantedP ≠ []
  tr : grantsOf g.trace ++ pendingGrants g.m.posted = g.grantedP
  abNodup : (abortsOf g.trace ++ pendingAborts g.m.posted).Nodup
  abIn : ∀ w ∈ abortsOf g.trace ++ pendingAborts g.m.posted, w ∈ g.abortedP

@[simp] theorem live_nil : live [] = [] := rfl
@[simp] theorem live_cons_some (w : Nat) (q) : live (some w :: q) = w :: live q := rfl
@[simp] theorem live_cons_none (q) : live (none :: q) = live q := rfl
@[simp] theorem live_append (a b) : live (a ++ b) = live a ++ live b := by simp [live]

theorem unlockQ_spec (q : List (Option Nat)) :
    (∀ w, (unlockQ q).1 = some w → live q = w :: live (unlockQ q).2) ∧
    ((unlockQ q).1 = none → live q = [] ∧ (unlockQ q).2 = []) := by
  induction q with
  | nil => simp [unlockQ]
  | cons x r ih =>
    cases x with
    | none => simpa [unlockQ] using ih
    | some v => simp [unlockQ]

theorem mem_live {q : List (Option Nat)} {w : Nat} : w ∈ live q ↔ some w ∈ q := by
  simp [live]

theorem live_clearSlot (w : Nat) (q : List (Option Nat)) :
    live (clearSlot w q) = (live q).filter (fun x => x != w) := by
  induction q with
  | nil => rfl
  | cons x r ih =>
    cases x with
    | none => simpa [clearSlot] using ih
    | some v =>
      by_cases h : v = w
      · subst h; simpa [clearSlot] using ih
      · have : (some v = some w) = False := by simp [h]
        simp [clearSlot, h, this] at ih ⊢
        exact ih

@[simp] theorem pendingGrants_append (a b) : pendingGrants (a ++ b) = pendingGrants a ++ pendingGrants b := by
  simp [pendingGrants]
@[simp] theorem pendingAborts_append (a b) : pendingAborts (a ++ b) = pendingAborts a ++ pendingAborts b := by
  simp [pendingAborts]
@[simp] theorem grantsOf_append (a b) : grantsOf (a ++ b) = grantsOf a ++ grantsOf b := by simp [grantsOf]
@[simp] theorem abortsOf_append (a b) : abortsOf (a ++ b) = abortsOf a ++ abortsOf b := by simp [abortsOf]

theorem pendingGrants_aborts (l : List Nat) : pendingGrants (l.map fun w => Task.ev (.abort w)) = [] := by
  induction l with
  | nil => rfl
  | cons a r ih => simpa [pendingGrants] using ih

theorem pendingAborts_aborts (l : List Nat) : pendingAborts (l.map fun w => Task.ev (.abort w)) = l := by
  induction l with
  | nil => rfl
  | cons a r ih => simp [pendingAborts] at ih ⊢; exact ih

theorem ginv_init : GInv {} := by
  constructor <;> simp [live, pendingGrants, grantsOf, abortsOf, pendingAborts, notIn]

theorem filter_notIn_append_fresh (A ab : List Nat) (w : Nat) (hw : w ∉ ab) :
    (A ++ [w]).filter (notIn ab) = A.filter (notIn ab) ++ [w] := by
  simp [List.filter_append, notIn, hw]

theorem step_lock (g : G) (w : Nat) (h : GInv g) (hl : g.legal (.lock w) = true) : GInv (g.step (.lock w)) := by
  have hfresh : w ∉ g.arrival := by simpa [G.legal] using hl
  have hwab : w ∉ g.abortedP := fun hh => hfresh (h.abSub w hh)
  by_cases hlk : g.m.locked = true
  · simp only [G.step, M.step, hlk, if_true]
    constructor <;> simp only [List.append_nil]
    · exact List.nodup_append.mpr ⟨h.nodupA, by simp, by intro a ha b hb; simp at hb; subst hb; intro hab; exact hfresh (hab ▸ ha)⟩
    · rw [filter_notIn_append_fresh _ _ _ hwab, ← h.part]; simp
    · intro x hx; simp; exact Or.inl (h.abSub x hx)
    · intro hh; simp [hlk] at hh
    · simpa [hlk] using h.pend
    · intro _; exact h.lockedNe hlk
    · exact h.tr
    · exact h.abNodup
    · exact h.abIn
  · have hlk' : g.m.locked = false := by simpa using hlk
    have hu := h.unlockedEmpty hlk'
    have hp := h.pend
    simp only [hlk', Bool.false_and, Bool.false_eq_true, if_false] at hp
    simp only [G.step, M.step, hlk', Bool.false_eq_true, if_false]
    constructor <;> simp only [List.append_nil]
    · exact List.nodup_append.mpr ⟨h.nodupA, by simp, by intro a ha b hb; simp at hb; subst hb; intro hab; exact hfresh (hab ▸ ha)⟩
    · rw [filter_notIn_append_fresh _ _ _ hwab, ← h.part]; simp [hu.1]
    · intro x hx; simp; exact Or.inl (h.abSub x hx)
    · intro hh; simp at hh
    · rw [pendingGrants_append, hp]; simp [pendingGrants]
    · intro _; simp
    · rw [pendingGrants_append, ← List.append_assoc, h.tr]; simp [pendingGrants]
    · simpa [pendingAborts] using h.abNodup
    · simpa [pendingAborts] using h.abIn

theorem step_unlock (g : G) (h : GInv g) (hl : g.legal .unlock = true) : GInv (g.step .unlock) := by
  have hdel : g.delivered = true := by simpa [G.legal] using hl
  have hlk : g.m.locked = true := by
    cases hk : g.m.locked with
    | true => rfl
    | false => have := (h.unlockedEmpty hk).2; rw [hdel] at this; cases this
  have hp := h.pend
  simp only [hlk, hdel, Bool.not_true, Bool.and_false, Bool.false_eq_true, if_false] at hp
  have hq := unlockQ_spec g.m.waiting
  cases hu : unlockQ g.m.waiting with
  | mk o r =>
    rw [hu] at hq
    cases o with
    | some w =>
      have hlive := hq.1 w rfl
      simp only [G.step, M.step, hu]
      constructor <;> simp only [List.append_nil]
      · exact h.nodupA
      · rw [← h.part, hlive]; simp
      · exact h.abSub
      · intro hh; simp [hlk] at hh
      · rw [pendingGrants_append, hp]; simp [pendingGrants, hlk]
      · intro _; simp
      · rw [pendingGrants_append, ← List.append_assoc, h.tr]; simp [pendingGrants]
      · simpa [pendingAborts] using h.abNodup
      · simpa [pendingAborts] using h.abIn
    | none =>
      have hlive := hq.2 rfl
      have hr : r = [] := hlive.2
      subst hr
      simp only [G.step, M.step, hu]
      constructor <;> simp only [List.append_nil]
      · exact h.nodupA
      · rw [← h.part, hlive.1]; simp
      · exact h.abSub
      · intro _; simp
      · simp [hp]
      · intro hh; cases hh
      · exact h.tr
      · exact h.abNodup
      · exact h.abIn

theorem nodup_granted_live (g : G) (h : GInv g) : (g.grantedP ++ live g.m.waiting).Nodup := by
  rw [h.part]; exact h.nodupA.filter _

theorem live_not_aborted (g : G) (h : GInv g) {w : Nat} (hw : w ∈ live g.m.waiting) : w ∉ g.abortedP := by
  have : w ∈ g.arrival.filter (notIn g.abortedP) := by rw [← h.part]; simp [hw]
  simpa [notIn] using (List.mem_filter.mp this).2

theorem filter_notIn_snoc (A ab : List Nat) (w : Nat) :
    A.filter (notIn (ab ++ [w])) = (A.filter (notIn ab)).filter (fun x => x != w) := by
  rw [List.filter_filter]
  congr 1; funext x; simp [notIn]; by_cases hx : x = w <;> simp [hx]

theorem filter_ne_of_not_mem (l : List Nat) (w : Nat) (h : w ∉ l) : l.filter (fun x => x != w) = l := by
  rw [List.filter_eq_self]; intro a ha; simp; intro hh; exact h (hh ▸ ha)

/-- effect of an effective per-operation cancellation on the bookkeeping, shared by the posted and the inline case -/
theorem part_after_cancel (g : G) (h : GInv g) (w : Nat) (hw : some w ∈ g.m.waiting) :
    g.grantedP ++ live (clearSlot w g.m.waiting) = g.arrival.filter (notIn (g.abortedP ++ [w])) ∧ w ∉ g.abortedP ∧ w ∈ g.arrival := by
  have hwl : w ∈ live g.m.waiting := mem_live.mpr hw
  have hnd := nodup_granted_live g h
  have hng : w ∉ g.grantedP := fun hh => (List.nodup_append.mp hnd).2.2 w hh w hwl rfl
  have hna := live_not_aborted g h hwl
  refine ⟨?_, hna, ?_⟩
  · rw [filter_notIn_snoc, ← h.part, List.filter_append, filter_ne_of_not_mem _ _ hng, live_clearSlot]
  · have : w ∈ g.arrival.filter (notIn g.abortedP) := by rw [← h.part]; simp [hwl]
    exact (List.mem_filter.mp this).1

theorem contains_some_iff (q : List (Option Nat)) (w : Nat) : q.contains (some w) = true ↔ some w ∈ q := by
  simp

theorem abIn_mono {g : G} (h : GInv g) (extra : List Nat) :
    ∀ w ∈ abortsOf g.trace ++ pendingAborts g.m.posted, w ∈ g.abortedP ++ extra :=
  fun w hw => List.mem_append_left _ (h.abIn w hw)

/-- a fresh abort (for a waiter that is still in the deque) keeps the abort bookkeeping duplicate-free -/
theorem fresh_abort (g : G) (h : GInv g) (w : Nat) (hw : some w ∈ g.m.waiting) :
    w ∉ abortsOf g.trace ++ pendingAborts g.m.posted := by
  intro hh
  exact live_not_aborted g h (mem_live.mpr hw) (h.abIn w hh)

theorem pendingAborts_snoc_abort (p : List Task) (w : Nat) :
    pendingAborts (p ++ [Task.ev (.abort w)]) = pendingAborts p ++ [w] := by
  simp [pendingAborts]

theorem step_cancelOne (g : G) (w : Nat) (inside : Bool) (h : GInv g) : GInv (g.step (.cancelOne w inside)) := by
  cases inside with
  | true =>
    simp only [G.step, M.step, if_true, Bool.not_true, Bool.false_and, Bool.false_eq_true, if_false, List.append_nil]
    constructor
    · exact h.nodupA
    · exact h.part
    · exact h.abSub
    · exact h.unlockedEmpty
    · simpa [pendingGrants] using h.pend
    · exact h.lockedNe
    · simpa [pendingGrants] using h.tr
    · simpa [pendingAborts] using h.abNodup
    · simpa [pendingAborts] using h.abIn
  | false =>
    by_cases hw : g.m.waiting.contains (some w) = true
    · have hw' : some w ∈ g.m.waiting := (contains_some_iff _ _).mp hw
      obtain ⟨hpart, hna, hwa⟩ := part_after_cancel g h w hw'
      have hfresh := fresh_abort g h w hw'
      simp only [G.step, M.step, emitSignal, effective, hw, if_true, Bool.not_false, Bool.true_and,
        Bool.false_eq_true, if_false, List.append_nil]
      constructor
      · exact h.nodupA
      · exact hpart
      · intro x hx; rcases List.mem_append.mp hx with hx | hx
        · exact h.abSub x hx
        · simp at hx; subst hx; exact hwa
      · intro hk
        have := h.unlockedEmpty hk
        rw [this.1] at hw'; cases hw'
      · simpa [pendingGrants] using h.pend
      · exact h.lockedNe
      · simpa [pendingGrants] using h.tr
      · rw [pendingAborts_snoc_abort, ← List.append_assoc]
        exact List.nodup_append.mpr ⟨h.abNodup, by simp, by intro a ha b hb; simp at hb; subst hb; intro hab; exact hfresh (hab ▸ ha)⟩
      · intro x hx
        rw [pendingAborts_snoc_abort, ← List.append_assoc] at hx
        rcases List.mem_append.mp hx with hx | hx
        · exact List.mem_append_left _ (h.abIn x hx)
        · exact List.mem_append_right _ hx
    · have hw0 : g.m.waiting.contains (some w) = false := by simpa using hw
      simp only [G.step, M.step, emitSignal, effective, hw0, Bool.false_eq_true, if_false, Bool.and_false,
        List.append_nil]
      exact h

theorem step_cancelAll (g : G) (h : GInv g) : GInv (g.step .cancelAll) := by
  have hnd := nodup_granted_live g h
  have hdisj : ∀ x ∈ live g.m.waiting, x ∉ g.grantedP := fun x hx hg => (List.nodup_append.mp hnd).2.2 x hg x hx rfl
  simp only [G.step, M.step, List.append_nil]
  constructor
  · exact h.nodupA
  · -- grantedP = arrival.filter (∉ abortedP ++ live waiting)
    have : g.arrival.filter (notIn (g.abortedP ++ live g.m.waiting))
        = (g.arrival.filter (notIn g.abortedP)).filter (notIn (live g.m.waiting)) := by
      rw [List.filter_filter]; congr 1; funext x; simp [notIn, Bool.and_comm]
    rw [this, ← h.part, List.filter_append]
    have h1 : g.grantedP.filter (notIn (live g.m.waiting)) = g.grantedP := by
      rw [List.filter_eq_self]; intro a ha; simp [notIn]; intro hh; exact hdisj a hh ha
    have h2 : (live g.m.waiting).filter (notIn (live g.m.waiting)) = [] := by
      rw [List.filter_eq_nil_iff]; intro a ha; simp [notIn, ha]
    simp [h1, h2]
  · intro x hx; rcases List.mem_append.mp hx with hx | hx
    · exact h.abSub x hx
    · have : x ∈ g.arrival.filter (notIn g.abortedP) := by rw [← h.part]; simp [hx]
      exact (List.mem_filter.mp this).1
  · intro hk; exact ⟨rfl, (h.unlockedEmpty hk).2⟩
  · rw [pendingGrants_append, pendingGrants_aborts]; simpa using h.pend
  · exact h.lockedNe
  · rw [pendingGrants_append, pendingGrants_aborts]; simpa using h.tr
  · rw [pendingAborts_append, pendingAborts_aborts, ← List.append_assoc]
    refine List.nodup_append.mpr ⟨h.abNodup, (List.nodup_append.mp hnd).2.1, ?_⟩
    intro a ha b hb hab; subst hab
    exact live_not_aborted g h hb (h.abIn a ha)
  · intro x hx
    rw [pendingAborts_append, pendingAborts_aborts, ← List.append_assoc] at hx
    rcases List.mem_append.mp hx with hx | hx
    · exact List.mem_append_left _ (h.abIn x hx)
    · exact List.mem_append_right _ hx

@[simp] theorem pg_grant (w) (r) : pendingGrants (Task.ev (.grant w) :: r) = w :: pendingGrants r := rfl
@[simp] theorem pg_abort (w) (r) : pendingGrants (Task.ev (.abort w) :: r) = pendingGrants r := rfl
@[simp] theorem pg_emit (w) (r) : pendingGrants (Task.emit w :: r) = pendingGrants r := rfl
@[simp] theorem pa_grant (w) (r) : pendingAborts (Task.ev (.grant w) :: r) = pendingAborts r := rfl
@[simp] theorem pa_abort (w) (r) : pendingAborts (Task.ev (.abort w) :: r) = w :: pendingAborts r := rfl
@[simp] theorem pa_emit (w) (r) : pendingAborts (Task.emit w :: r) = pendingAborts r := rfl
@[simp] theorem go_grant (w) : grantsOf [Ev.grant w] = [w] := rfl
@[simp] theorem go_abort (w) : grantsOf [Ev.abort w] = [] := rfl
@[simp] theorem ao_grant (w) : abortsOf [Ev.grant w] = [] := rfl
@[simp] theorem ao_abort (w) : abortsOf [Ev.abort w] = [w] := rfl

theorem step_run1 (g : G) (h : GInv g) : GInv (g.step .run1) := by
  cases hp : g.m.posted with
  | nil => simp only [G.step, M.step, hp, List.append_nil]; exact h
  | cons t r =>
    have hpend := h.pend
    have htr := h.tr
    have hnd := h.abNodup
    have hin := h.abIn
    rw [hp] at hpend htr hnd hin
    cases t with
    | ev e =>
      cases e with
      | grant w =>
        rw [pg_grant] at hpend htr
        rw [pa_grant] at hnd hin
        have hlk : (g.m.locked && !g.delivered) = true := by
          cases hc : (g.m.locked && !g.delivered) with
          | true => rfl
          | false => rw [hc] at hpend; simp at hpend
        rw [hlk] at hpend
        simp only [if_true] at hpend
        have hr : pendingGrants r = [] := by
          cases hl : g.grantedP.getLast? with
          | none => rw [hl] at hpend; simp at hpend
          | some v => rw [hl] at hpend; simp at hpend; exact hpend.2
        have hlocked : g.m.locked = true := by
          cases hk : g.m.locked with
          | true => rfl
          | false => rw [hk] at hlk; simp at hlk
        simp only [G.step, M.step, hp]
        constructor
        · exact h.nodupA
        · exact h.part
        · exact h.abSub
        · intro hk; simp only at hk; rw [hlocked] at hk; cases hk
        · simp [hr]
        · exact h.lockedNe
        · simp only [grantsOf_append, go_grant, List.append_assoc]; simpa using htr
        · simpa using hnd
        · simpa using hin
      | abort w =>
        rw [pg_abort] at hpend htr
        rw [pa_abort] at hnd hin
        simp only [G.step, M.step, hp]
        constructor
        · exact h.nodupA
        · exact h.part
        · exact h.abSub
        · exact h.unlockedEmpty
        · exact hpend
        · exact h.lockedNe
        · simpa using htr
        · simpa [List.append_assoc] using hnd
        · simpa [List.append_assoc] using hin
    | emit w =>
      rw [pg_emit] at hpend htr
      rw [pa_emit] at hnd hin
      by_cases hw : g.m.waiting.contains (some w) = true
      · have hw' : some w ∈ g.m.waiting := (contains_some_iff _ _).mp hw
        obtain ⟨hpart, hna, hwa⟩ := part_after_cancel g h w hw'
        have hfresh := fresh_abort g h w hw'
        rw [hp, pa_emit] at hfresh
        simp only [G.step, M.step, emitSignal, effective, hp, hw, if_true]
        constructor
        · exact h.nodupA
        · exact hpart
        · intro x hx; rcases List.mem_append.mp hx with hx | hx
          · exact h.abSub x hx
          · simp at hx; subst hx; exact hwa
        · intro hk
          have := h.unlockedEmpty hk
          rw [this.1] at hw'; cases hw'
        · exact hpend
        · exact h.lockedNe
        · simpa using htr
        · simp only [abortsOf_append, ao_abort, List.append_assoc]
          have : (abortsOf g.trace ++ ([w] ++ pendingAborts r)).Perm (w :: (abortsOf g.trace ++ pendingAborts r)) :=
            List.perm_middle
          rw [this.nodup_iff]
          exact List.nodup_cons.mpr ⟨hfresh, hnd⟩
        · intro x hx
          simp only [abortsOf_append, ao_abort, List.mem_append, List.mem_singleton] at hx
          rcases hx with (hx | hx) | hx
          · exact List.mem_append_left _ (hin x (List.mem_append_left _ hx))
          · subst hx; simp
          · exact List.mem_append_left _ (hin x (List.mem_append_right _ hx))
      · have hw0 : g.m.waiting.contains (some w) = false := by simpa using hw
        simp only [G.step, M.step, emitSignal, effective, hp, hw0, Bool.false_eq_true, if_false, List.append_nil]
        constructor
        · exact h.nodupA
        · exact h.part
        · exact h.abSub
        · exact h.unlockedEmpty
        · exact hpend
        · exact h.lockedNe
        · exact htr
        · exact hnd
        · exact hin

theorem step_inv (g : G) (i : In) (h : GInv g) (hl : g.legal i = true) : GInv (g.step i) := by
  cases i with
  | lock w => exact step_lock g w h hl
  | unlock => exact step_unlock g h hl
  | cancelOne w inside => exact step_cancelOne g w inside h
  | cancelAll => exact step_cancelAll g h
  | run1 => exact step_run1 g h

theorem reachable_inv (is : List In) : ∀ (g g' : G), GInv g → g.run is = some g' → GInv g' := by
  induction is with
  | nil => intro g g' h hr; simp [G.run] at hr; subst hr; exact h
  | cons i is ih =>
    intro g g' h hr
    simp only [G.run] at hr
    split at hr
    · rename_i hl; exact ih _ _ (step_inv g i h hl) hr
    · cases hr

end Mqtt5V.Proofs.Mutex
