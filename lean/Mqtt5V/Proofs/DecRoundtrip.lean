import Mqtt5V.Model.Dec
import Mqtt5V.Proofs.Enc
/-! Round trip of the decoder index model on encoded bytes placed anywhere in a buffer (C18). -/
namespace Mqtt5V.Proofs.DecRoundtrip
open Mqtt5V.Wire Mqtt5V.Model.Dec Mqtt5V.Model.Enc Mqtt5V.Proofs.Enc Mqtt5V.Gen.PropTable Mqtt5V.Model.PropsText

/-- the bytes `bs` stand in the buffer at index `pos` -/
def At (mem : Bs) : Nat → Bs → Prop
  | _, [] => True
  | pos, x :: r => mem[pos]? = some x ∧ At mem (pos + 1) r

theorem At_append (mem : Bs) (a b : Bs) : ∀ pos, At mem pos (a ++ b) ↔ At mem pos a ∧ At mem (pos + a.length) b := by
  induction a with
  | nil => intro pos; simp [At]
  | cons x r ih =>
    intro pos
    simp only [List.cons_append, At, ih (pos + 1), List.length_cons]
    have : pos + 1 + r.length = pos + (r.length + 1) := by omega
    rw [this]
    exact and_assoc.symm

theorem At_self (pre bs post : Bs) : At (pre ++ bs ++ post) pre.length bs := by
  induction bs generalizing pre with
  | nil => trivial
  | cons x r ih =>
    refine ⟨by simp, ?_⟩
    have := ih (pre ++ [x])
    simpa using this

theorem At_take (mem : Bs) (bs : Bs) : ∀ pos, At mem pos bs → (mem.drop pos).take bs.length = bs := by
  induction bs with
  | nil => intro pos _; simp
  | cons x r ih =>
    intro pos h
    obtain ⟨h1, h2⟩ := h
    have hd : mem.drop pos = x :: mem.drop (pos + 1) := by
      have hlt : pos < mem.length := by
        rcases Nat.lt_or_ge pos mem.length with h | h
        · exact h
        · rw [List.getElem?_eq_none h] at h1; cases h1
      rw [List.drop_eq_getElem_cons hlt]
      congr 1
      rw [List.getElem?_eq_getElem hlt] at h1
      exact Option.some.inj h1
    rw [hd]
    simp [ih (pos + 1) h2]

theorem getD_of_At (mem : Bs) (pos x : Nat) (r : Bs) (h : At mem pos (x :: r)) : mem.getD pos 0 = x := by
  have := h.1
  simp [List.getD, this]

variable (mem : Bs) (rl : Nat)

theorem byte_ok (pos lim x : Nat) (r : Bs) (h : At mem pos (x :: r)) (h1 : pos < lim) (h2 : pos < rl) :
    byte ⟨mem, rl⟩ pos lim = .ok x (pos + 1) := by
  unfold byte
  have a : ¬ pos ≥ lim := by omega
  have b : ¬ pos ≥ rl := by omega
  simp only [a, b, if_false, getD_of_At mem pos x r h]

theorem bigWord_ok (pos lim n : Nat) (r : Bs) (h : At mem pos (be16 n ++ r)) (hn : n < 65536) (h1 : pos + 2 ≤ lim) (h2 : pos + 2 ≤ rl) :
    bigWord ⟨mem, rl⟩ pos lim = .ok n (pos + 2) := by
  unfold bigWord
  simp only [be16, List.cons_append, List.nil_append] at h
  rw [byte_ok mem rl pos lim _ _ h (by omega) (by omega)]
  simp only [Res.bind]
  rw [byte_ok mem rl (pos + 1) lim _ _ h.2 (by omega) (by omega)]
  simp only [Res.bind]
  congr 1
  omega

theorem bigDword_ok (pos lim n : Nat) (r : Bs) (h : At mem pos (be32 n ++ r)) (hn : n < 4294967296) (h1 : pos + 4 ≤ lim) (h2 : pos + 4 ≤ rl) :
    bigDword ⟨mem, rl⟩ pos lim = .ok n (pos + 4) := by
  unfold bigDword bigWord
  simp only [be32, List.cons_append, List.nil_append] at h
  rw [byte_ok mem rl pos lim _ _ h (by omega) (by omega)]
  simp only [Res.bind]
  rw [byte_ok mem rl (pos + 1) lim _ _ h.2 (by omega) (by omega)]
  simp only [Res.bind]
  rw [byte_ok mem rl (pos + 1 + 1) lim _ _ h.2.2 (by omega) (by omega)]
  simp only [Res.bind]
  rw [byte_ok mem rl (pos + 1 + 1 + 1) lim _ _ h.2.2.2 (by omega) (by omega)]
  simp only [Res.bind]
  congr 1
  omega

theorem varint_ok (pos lim n : Nat) (r : Bs) (h : At mem pos (toVariableBytes n ++ r)) (hn : n ≤ 268435455)
    (h1 : pos + variableLength n ≤ lim) (h2 : pos + variableLength n ≤ rl) :
    varint ⟨mem, rl⟩ pos lim = .ok n (pos + variableLength n) := by
  unfold toVariableBytes at h
  have hn' : ¬ n > 0xfffffff := by omega
  simp only [hn', if_false] at h
  unfold variableLength at h1 h2 ⊢
  simp only [hn', if_false] at h1 h2 ⊢
  unfold varint
  by_cases c1 : n > 127
  · by_cases c2 : n > 16383
    · by_cases c3 : n > 2097151
      · have a1 : n / 128 > 127 := by omega
        have a2 : n / 128 / 128 > 127 := by omega
        have a3 : ¬ n / 128 / 128 / 128 > 127 := by omega
        simp only [varLoop, c1, a1, a2, a3, if_true, if_false, List.cons_append, List.nil_append] at h
        simp only [c1, c2, c3, if_true] at h1 h2 ⊢
        rw [byte_ok mem rl pos lim _ _ h (by omega) (by omega)]
        simp only [Res.bind]
        rw [if_neg (by omega)]
        rw [byte_ok mem rl (pos + 1) lim _ _ h.2 (by omega) (by omega)]
        simp only [Res.bind]
        rw [if_neg (by omega)]
        rw [byte_ok mem rl (pos + 1 + 1) lim _ _ h.2.2 (by omega) (by omega)]
        simp only [Res.bind]
        rw [if_neg (by omega)]
        rw [byte_ok mem rl (pos + 1 + 1 + 1) lim _ _ h.2.2.2 (by omega) (by omega)]
        simp only [Res.bind]
        rw [if_pos (by omega)]
        congr 1
        omega
      · have a1 : n / 128 > 127 := by omega
        have a2 : ¬ n / 128 / 128 > 127 := by omega
        simp only [varLoop, c1, a1, a2, if_true, if_false, List.cons_append, List.nil_append] at h
        simp only [c1, c2, c3, if_true, if_false] at h1 h2 ⊢
        rw [byte_ok mem rl pos lim _ _ h (by omega) (by omega)]
        simp only [Res.bind]
        rw [if_neg (by omega)]
        rw [byte_ok mem rl (pos + 1) lim _ _ h.2 (by omega) (by omega)]
        simp only [Res.bind]
        rw [if_neg (by omega)]
        rw [byte_ok mem rl (pos + 1 + 1) lim _ _ h.2.2 (by omega) (by omega)]
        simp only [Res.bind]
        rw [if_pos (by omega)]
        congr 1
        omega
    · have a1 : ¬ n / 128 > 127 := by omega
      have c3 : ¬ n > 2097151 := by omega
      simp only [varLoop, c1, a1, if_true, if_false, List.cons_append, List.nil_append] at h
      simp only [c1, c2, c3, if_true, if_false] at h1 h2 ⊢
      rw [byte_ok mem rl pos lim _ _ h (by omega) (by omega)]
      simp only [Res.bind]
      rw [if_neg (by omega)]
      rw [byte_ok mem rl (pos + 1) lim _ _ h.2 (by omega) (by omega)]
      simp only [Res.bind]
      rw [if_pos (by omega)]
      congr 1
      omega
  · have c2 : ¬ n > 16383 := by omega
    have c3 : ¬ n > 2097151 := by omega
    simp only [varLoop, c1, if_false, List.cons_append, List.nil_append] at h
    simp only [c1, c2, c3, if_false] at h1 h2 ⊢
    rw [byte_ok mem rl pos lim _ _ h (by omega) (by omega)]
    simp only [Res.bind]
    rw [if_pos (by omega)]
    congr 1
    omega

theorem slice_ok (pos lim : Nat) (bs r : Bs) (h : At mem pos (bs ++ r)) (h1 : pos + bs.length ≤ lim) (h2 : pos + bs.length ≤ rl) :
    slice ⟨mem, rl⟩ pos bs.length lim = .ok bs (pos + bs.length) := by
  unfold slice
  have e : (⟨mem, rl⟩ : Ctx).realLast = rl := rfl
  rw [if_neg (by omega), if_neg (by rw [e]; omega)]
  have := At_take mem bs pos ((At_append mem bs r pos).mp h).1
  simp only [this]

theorem lenPrefix_ok (pos lim : Nat) (s r : Bs) (h : At mem pos (lenPrefixed s ++ r)) (hs : s.length ≤ 65535)
    (h1 : pos + 2 + s.length ≤ lim) (h2 : pos + 2 + s.length ≤ rl) :
    lenPrefix ⟨mem, rl⟩ pos lim = .ok s (pos + 2 + s.length) := by
  unfold lenPrefix
  unfold lenPrefixed at h
  rw [List.append_assoc] at h
  rw [bigWord_ok mem rl pos lim s.length _ h (by omega) (by omega) (by omega)]
  simp only [Res.bind]
  have h' := ((At_append mem (be16 s.length) (s ++ r) pos).mp h).2
  simp only [be16, List.length_cons, List.length_nil] at h'
  exact slice_ok mem rl (pos + 2) lim s r h' (by omega) (by omega)

theorem value_ok (pos lim : Nat) (v : PVal) (r : Bs) (h : At mem pos (PVal.encode v ++ r)) (hv : WFVal v)
    (h1 : pos + PVal.size v ≤ lim) (h2 : pos + PVal.size v ≤ rl) :
    value (kindOfVal v) ⟨mem, rl⟩ pos lim = .ok v (pos + PVal.size v) := by
  cases v with
  | u8 n =>
    have hn : n < 256 := hv
    simp only [PVal.encode, PVal.size, List.cons_append, List.nil_append] at h h1 h2 ⊢
    have e : n % 256 = n := by omega
    rw [e] at h
    simp only [kindOfVal, value]
    rw [byte_ok mem rl pos lim _ _ h (by omega) (by omega)]
    rfl
  | u16 n =>
    have hn : n < 65536 := hv
    simp only [PVal.encode, PVal.size] at h h1 h2 ⊢
    simp only [kindOfVal, value]
    rw [bigWord_ok mem rl pos lim n _ h hn (by omega) (by omega)]
    rfl
  | u32 n =>
    have hn : n < 4294967296 := hv
    simp only [PVal.encode, PVal.size] at h h1 h2 ⊢
    simp only [kindOfVal, value]
    rw [bigDword_ok mem rl pos lim n _ h hn (by omega) (by omega)]
    rfl
  | vint n =>
    have hn : n ≤ 268435455 := hv
    simp only [PVal.encode, PVal.size] at h h1 h2 ⊢
    simp only [kindOfVal, value]
    rw [varint_ok mem rl pos lim n _ h hn (by omega) (by omega)]
    rfl
  | str b =>
    have hn : b.length ≤ 65535 := hv
    simp only [PVal.encode, PVal.size, lenPrefixedSize] at h h1 h2 ⊢
    simp only [kindOfVal, value]
    rw [lenPrefix_ok mem rl pos lim b _ h hn (by omega) (by omega)]
    simp only [Res.bind]
    congr 1
    omega
  | pair k w =>
    have hn : k.length ≤ 65535 ∧ w.length ≤ 65535 := hv
    simp only [PVal.encode, PVal.size, lenPrefixedSize] at h h1 h2 ⊢
    simp only [kindOfVal, value]
    rw [List.append_assoc] at h
    rw [lenPrefix_ok mem rl pos lim k _ h hn.1 (by omega) (by omega)]
    simp only [Res.bind]
    have h' := ((At_append mem (lenPrefixed k) (lenPrefixed w ++ r) pos).mp h).2
    simp only [lenPrefixed, be16, List.length_append, List.length_cons, List.length_nil] at h'
    have e : pos + (0 + 1 + 1 + k.length) = pos + 2 + k.length := by omega
    rw [e] at h'
    rw [lenPrefix_ok mem rl (pos + 2 + k.length) lim w _ h' hn.2 (by omega) (by omega)]
    simp only [Res.bind]
    congr 1
    omega

/-- a property the packet type may carry, typed as the library's own property table says, with a value that fits its wire type -/
def WFPropD (allowed : List Nat) (p : Property) : Prop :=
  p.id < 256 ∧ allowed.contains p.id = true ∧ (∃ m, kindOf p.id = some (kindOfVal p.val, m)) ∧ WFVal p.val

theorem length_le_bodySize (ps : Props) : ps.length ≤ propsBodySize ps := by
  induction ps with
  | nil => simp [propsBodySize]
  | cons p ps ih => simp only [List.length_cons, propsBodySize, propSize]; omega

theorem propLoop_ok (allowed : List Nat) (ps : Props) (hw : ∀ p ∈ ps, WFPropD allowed p) :
    ∀ (fuel pos : Nat) (acc : Props) (r : Bs), At mem pos (propsBody ps ++ r) → ps.length < fuel → pos + propsBodySize ps ≤ rl →
      propLoop allowed ⟨mem, rl⟩ fuel pos (pos + propsBodySize ps) acc = .ok (acc ++ ps) (pos + propsBodySize ps) := by
  induction ps with
  | nil =>
    intro fuel pos acc r _ hf _
    cases fuel with
    | zero => omega
    | succ f => simp [propLoop, propsBodySize]
  | cons p ps ih =>
    intro fuel pos acc r h hf hrl
    cases fuel with
    | zero => omega
    | succ f =>
      obtain ⟨hid, hal, ⟨m, hk⟩, hv⟩ := hw p (by simp)
      simp only [propsBody, propEncode, List.cons_append, List.append_assoc] at h
      have hid' : p.id % 256 = p.id := by omega
      rw [hid'] at h
      simp only [propsBodySize, propSize] at hrl ⊢
      have hsz := PVal_encode_length p.val
      unfold propLoop
      have e : (⟨mem, rl⟩ : Ctx).realLast = rl := rfl
      have em : (⟨mem, rl⟩ : Ctx).mem = mem := rfl
      rw [if_neg (by omega), if_neg (by rw [e]; omega)]
      simp only [em, getD_of_At mem pos p.id _ h, hal, Bool.not_true, Bool.false_eq_true, if_false, hk]
      have hval := value_ok mem rl (pos + 1) (pos + (1 + PVal.size p.val + propsBodySize ps)) p.val (propsBody ps ++ r) h.2 hv (by omega) (by omega)
      rw [hval]
      simp only
      have h' := ((At_append mem (PVal.encode p.val) (propsBody ps ++ r) (pos + 1)).mp h.2).2
      rw [hsz] at h'
      have := ih (fun q hq => hw q (by simp [hq])) f (pos + 1 + PVal.size p.val) (acc ++ [⟨p.id, p.val⟩]) r h' (by simp at hf; omega) (by omega)
      have e2 : pos + 1 + PVal.size p.val + propsBodySize ps = pos + (1 + PVal.size p.val + propsBodySize ps) := by omega
      rw [e2] at this
      rw [this]
      simp

/-- **property block**: in any order, with repeated user properties / subscription identifiers, the decoder yields what the
property container holds after assigning the properties in wire order -/
theorem props_ok (allowed : List Nat) (ps : Props) (hw : ∀ p ∈ ps, WFPropD allowed p) (hsz : propsBodySize ps ≤ 268435455)
    (pos lim : Nat) (r : Bs) (h : At mem pos (propsEncode false ps ++ r))
    (h1 : pos + propsSize false ps ≤ lim) (h2 : pos + propsSize false ps ≤ rl) :
    props allowed ⟨mem, rl⟩ pos lim = .ok (canon allowed ps) (pos + propsSize false ps) := by
  simp only [propsEncode, propsSize, Bool.false_and, Bool.false_eq_true, if_false, List.append_assoc] at h h1 h2 ⊢
  have hv1 : 1 ≤ variableLength (propsBodySize ps) := by unfold variableLength; split <;> (try split) <;> (try split) <;> (try split) <;> omega
  unfold props
  rw [if_neg (by omega)]
  rw [varint_ok mem rl pos lim (propsBodySize ps) _ h hsz (by omega) (by omega)]
  simp only [Res.bind]
  rw [if_neg (by omega)]
  have h' := ((At_append mem (toVariableBytes (propsBodySize ps)) (propsBody ps ++ r) pos).mp h).2
  rw [toVariableBytes_length] at h'
  have hl := length_le_bodySize ps
  rw [propLoop_ok mem rl allowed ps hw (propsBodySize ps + 1) (pos + variableLength (propsBodySize ps)) [] r h' (by omega) (by omega)]
  simp only [List.nil_append]
  congr 1
  omega

end Mqtt5V.Proofs.DecRoundtrip
