import Mqtt5V.Model.ReasonCode
/-! Helper lemmas for C20: lifting a Boolean check over the whole 9 × 256 table to a quantified statement. -/
namespace Mqtt5V.Proofs.ReasonCode
open Mqtt5V

/-- Boolean check over the whole 9 × 256 table -/
def check (p : Category → Nat → Bool) : Bool :=
  Category.all.all fun c => (List.range 256).all fun b => p c b

theorem Category.mem_all (c : Category) : c ∈ Category.all := by cases c <;> decide

theorem forall_of_check {p : Category → Nat → Bool} (h : check p = true) :
    ∀ (c : Category) (b : Nat), b < 256 → p c b = true := by
  intro c b hb
  unfold check at h
  rw [List.all_eq_true] at h
  have h1 := h c (Category.mem_all c)
  rw [List.all_eq_true] at h1
  exact h1 b (List.mem_range.mpr hb)

end Mqtt5V.Proofs.ReasonCode
