import Mqtt5V.Model.PubSend
/-! A monitor automaton over the actions of one publish operation, and the invariant that ties it to the operation's state:
every history of completions keeps the monitor out of its `bad` state. -/
namespace Mqtt5V.Proofs.PubSend
open Mqtt5V.Model.PubSend

/-- what the rules below need to remember about the actions so far -/
structure Mon where
  seenWait : Bool := false     -- a PUBLISH write succeeded (the op went on to wait for PUBACK/PUBREC)
  seenRel : Bool := false      -- a PUBREL was handed to the sender (i.e. a successful PUBREC was processed)
  seenComp : Bool := false     -- the op went on to wait for PUBCOMP (its PUBREL was written)
  freed : Bool := false        -- the packet identifier was released
  completed : Bool := false    -- the handler ran
  bad : Bool := false
  deriving Repr, DecidableEq

/-- the rules:
* a PUBLISH is (re)sent with DUP = 1 exactly when an earlier write of it succeeded;
* no PUBLISH after a PUBREL (QoS 2: the message is never published again once PUBREC was accepted);
* PUBCOMP is awaited only after a PUBREL;
* the identifier is released once, and the only thing that follows is the one completion; nothing follows the completion;
* a QoS 2 publish reports a non-failing reason code only after its PUBREL was written and PUBCOMP awaited. -/
def Mon.feed (q2 : Bool) (m : Mon) : Act → Mon
  | .sendPublish d => { m with bad := m.bad || m.seenRel || m.freed || m.completed || (d != m.seenWait) }
  | .sendPubrel _ => { m with seenRel := true, bad := m.bad || m.freed || m.completed }
  | .waitAck => { m with seenWait := true, bad := m.bad || m.seenRel || m.freed || m.completed }
  | .waitPubcomp => { m with seenComp := true, bad := m.bad || m.freed || m.completed || !m.seenRel }
  | .disconnectMalformed => { m with bad := m.bad || m.freed || m.completed }
  | .freePid => { m with freed := true, bad := m.bad || m.freed || m.completed }
  | .completeOk rc _ => { m with completed := true, bad := m.bad || m.completed || !m.freed || (q2 && decide (rc < 128) && !m.seenComp) }
  | .completeErr => { m with completed := true, bad := m.bad || m.completed || !m.freed }

def Mon.feedAll (q2 : Bool) (m : Mon) : List Act → Mon
  | [] => m
  | a :: r => (m.feed q2 a).feedAll q2 r

theorem feedAll_append (q2 : Bool) (m : Mon) (a b : List Act) : m.feedAll q2 (a ++ b) = (m.feedAll q2 a).feedAll q2 b := by
  induction a generalizing m with
  | nil => rfl
  | cons x r ih => simp [Mon.feedAll, ih]

/-- the relation between the operation's state and the monitor -/
def rel (s : S) (m : Mon) : Bool :=
  !m.bad &&
  (m.completed == (s.phase == .done)) && (m.freed == m.completed) &&
  (match s.phase with
   | .sendingPublish => (s.dup == m.seenWait) && !m.seenRel
   | .waitingAck => m.seenWait && !m.seenRel
   | .sendingPubrel => m.seenRel && s.qos2
   | .waitingPubcomp => m.seenRel && s.qos2 && m.seenComp
   | .done => true)

theorem rel_start (qos2 : Bool) : rel (start qos2).1 (({} : Mon).feedAll qos2 (start qos2).2) = true := by
  cases qos2 <;> decide

theorem step_ack_err (s : S) (rc props : Nat) (h : 128 ≤ rc) :
    step s (.reply (.ack rc props)) =
      (match s.phase with
       | .waitingAck => if !s.qos2 then finishOk s rc props else finishOk s rc 0
       | .waitingPubcomp => finishOk s rc props
       | _ => (s, [])) := by
  cases hp : s.phase <;> simp [step, hp, h]

theorem step_ack_ok (s : S) (rc props : Nat) (h : ¬ 128 ≤ rc) :
    step s (.reply (.ack rc props)) =
      (match s.phase with
       | .waitingAck => if !s.qos2 then finishOk s rc props else ({ s with phase := .sendingPubrel }, [.sendPubrel false])
       | .waitingPubcomp => finishOk s rc props
       | _ => (s, [])) := by
  cases hp : s.phase <;> simp [step, hp, h]

theorem step_qos2 (s : S) (i : In) : (step s i).1.qos2 = s.qos2 := by
  obtain ⟨qos2, phase, dup, cancelled⟩ := s
  cases i with
  | cancelSignal => rfl
  | sent r => cases r <;> cases phase <;> cases cancelled <;> simp [step, resendPublish, finishErr]
  | reply r =>
    cases r with
    | ack rc props =>
      by_cases hrc : 128 ≤ rc
      · rw [step_ack_err _ rc props hrc]; cases phase <;> cases qos2 <;> simp [finishOk]
      · rw [step_ack_ok _ rc props hrc]; cases phase <;> cases qos2 <;> simp [finishOk]
    | _ => cases phase <;> cases cancelled <;> simp [step, resendPublish, finishErr]

theorem rel_step_cancel (s : S) (m : Mon) (h : rel s m = true) :
    rel (step s .cancelSignal).1 (m.feedAll s.qos2 (step s .cancelSignal).2) = true := by
  obtain ⟨qos2, phase, dup, cancelled⟩ := s
  obtain ⟨sw, sr, sc, fr, co, bad⟩ := m
  have hbad : bad = false := by cases bad <;> simp_all [rel]
  subst hbad
  have hfr : fr = co := by cases fr <;> cases co <;> simp_all [rel]
  subst hfr
  cases phase <;> cases fr <;> cases qos2 <;> cases dup <;> cases cancelled <;> cases sw <;> cases sr <;> cases sc <;> simp_all [rel, step, Mon.feedAll]

theorem rel_step_sent (s : S) (m : Mon) (r : SendRes) (h : rel s m = true) :
    rel (step s (.sent r)).1 (m.feedAll s.qos2 (step s (.sent r)).2) = true := by
  obtain ⟨qos2, phase, dup, cancelled⟩ := s
  obtain ⟨sw, sr, sc, fr, co, bad⟩ := m
  have hbad : bad = false := by cases bad <;> simp_all [rel]
  subst hbad
  have hfr : fr = co := by cases fr <;> cases co <;> simp_all [rel]
  subst hfr
  cases r <;> cases phase <;> cases fr <;> cases qos2 <;> cases dup <;> cases cancelled <;> cases sw <;> cases sr <;> cases sc <;>
    simp_all [rel, step, Mon.feedAll, Mon.feed, resendPublish, finishErr]

theorem rel_step_reply_tryAgain (s : S) (m : Mon) (h : rel s m = true) :
    rel (step s (.reply .tryAgain)).1 (m.feedAll s.qos2 (step s (.reply .tryAgain)).2) = true := by
  obtain ⟨qos2, phase, dup, cancelled⟩ := s
  obtain ⟨sw, sr, sc, fr, co, bad⟩ := m
  have hbad : bad = false := by cases bad <;> simp_all [rel]
  subst hbad
  have hfr : fr = co := by cases fr <;> cases co <;> simp_all [rel]
  subst hfr
  cases phase <;> cases fr <;> cases qos2 <;> cases dup <;> cases cancelled <;> cases sw <;> cases sr <;> cases sc <;>
    simp_all [rel, step, Mon.feedAll, Mon.feed, resendPublish, finishErr]

theorem rel_step_reply_failed (s : S) (m : Mon) (h : rel s m = true) :
    rel (step s (.reply .failed)).1 (m.feedAll s.qos2 (step s (.reply .failed)).2) = true := by
  obtain ⟨qos2, phase, dup, cancelled⟩ := s
  obtain ⟨sw, sr, sc, fr, co, bad⟩ := m
  have hbad : bad = false := by cases bad <;> simp_all [rel]
  subst hbad
  have hfr : fr = co := by cases fr <;> cases co <;> simp_all [rel]
  subst hfr
  cases phase <;> cases fr <;> cases qos2 <;> cases dup <;> cases cancelled <;> cases sw <;> cases sr <;> cases sc <;>
    simp_all [rel, step, Mon.feedAll, Mon.feed, resendPublish, finishErr]

theorem rel_step_reply_undecodable (s : S) (m : Mon) (h : rel s m = true) :
    rel (step s (.reply .undecodable)).1 (m.feedAll s.qos2 (step s (.reply .undecodable)).2) = true := by
  obtain ⟨qos2, phase, dup, cancelled⟩ := s
  obtain ⟨sw, sr, sc, fr, co, bad⟩ := m
  have hbad : bad = false := by cases bad <;> simp_all [rel]
  subst hbad
  have hfr : fr = co := by cases fr <;> cases co <;> simp_all [rel]
  subst hfr
  cases phase <;> cases fr <;> cases qos2 <;> cases dup <;> cases cancelled <;> cases sw <;> cases sr <;> cases sc <;>
    simp_all [rel, step, Mon.feedAll, Mon.feed, resendPublish, finishErr]

theorem rel_step_reply_badCode (s : S) (m : Mon) (h : rel s m = true) :
    rel (step s (.reply .badCode)).1 (m.feedAll s.qos2 (step s (.reply .badCode)).2) = true := by
  obtain ⟨qos2, phase, dup, cancelled⟩ := s
  obtain ⟨sw, sr, sc, fr, co, bad⟩ := m
  have hbad : bad = false := by cases bad <;> simp_all [rel]
  subst hbad
  have hfr : fr = co := by cases fr <;> cases co <;> simp_all [rel]
  subst hfr
  cases phase <;> cases fr <;> cases qos2 <;> cases dup <;> cases cancelled <;> cases sw <;> cases sr <;> cases sc <;>
    simp_all [rel, step, Mon.feedAll, Mon.feed, resendPublish, finishErr]

theorem rel_step_ack_err (s : S) (m : Mon) (rc props : Nat) (hrc : 128 ≤ rc) (h : rel s m = true) :
    rel (step s (.reply (.ack rc props))).1 (m.feedAll s.qos2 (step s (.reply (.ack rc props))).2) = true := by
  rw [step_ack_err _ rc props hrc]
  have h1 : ¬ rc < 128 := by omega
  obtain ⟨qos2, phase, dup, cancelled⟩ := s
  obtain ⟨sw, sr, sc, fr, co, bad⟩ := m
  have hbad : bad = false := by cases bad <;> simp_all [rel]
  subst hbad
  have hfr : fr = co := by cases fr <;> cases co <;> simp_all [rel]
  subst hfr
  cases phase <;> cases fr <;> cases qos2 <;> cases dup <;> cases cancelled <;> cases sw <;> cases sr <;> cases sc <;>
    simp_all [rel, Mon.feedAll, Mon.feed, finishOk]

theorem rel_step_ack_ok (s : S) (m : Mon) (rc props : Nat) (hrc : ¬ 128 ≤ rc) (h : rel s m = true) :
    rel (step s (.reply (.ack rc props))).1 (m.feedAll s.qos2 (step s (.reply (.ack rc props))).2) = true := by
  rw [step_ack_ok _ rc props hrc]
  have h1 : rc < 128 := by omega
  obtain ⟨qos2, phase, dup, cancelled⟩ := s
  obtain ⟨sw, sr, sc, fr, co, bad⟩ := m
  have hbad : bad = false := by cases bad <;> simp_all [rel]
  subst hbad
  have hfr : fr = co := by cases fr <;> cases co <;> simp_all [rel]
  subst hfr
  cases phase <;> cases fr <;> cases qos2 <;> cases dup <;> cases cancelled <;> cases sw <;> cases sr <;> cases sc <;>
    simp_all [rel, Mon.feedAll, Mon.feed, finishOk]

theorem rel_step (s : S) (m : Mon) (i : In) (h : rel s m = true) : rel (step s i).1 (m.feedAll s.qos2 (step s i).2) = true := by
  cases i with
  | cancelSignal => exact rel_step_cancel s m h
  | sent r => exact rel_step_sent s m r h
  | reply r =>
    cases r with
    | tryAgain => exact rel_step_reply_tryAgain s m h
    | failed => exact rel_step_reply_failed s m h
    | undecodable => exact rel_step_reply_undecodable s m h
    | badCode => exact rel_step_reply_badCode s m h
    | ack rc props =>
      by_cases hrc : 128 ≤ rc
      · exact rel_step_ack_err s m rc props hrc h
      · exact rel_step_ack_ok s m rc props hrc h

theorem run_qos2 (is : List In) : ∀ s : S, (run s is).1.qos2 = s.qos2 := by
  induction is with
  | nil => intro s; rfl
  | cons i is ih => intro s; simp only [run]; rw [ih, step_qos2]

theorem rel_run (is : List In) : ∀ (s : S) (m : Mon), rel s m = true → rel (run s is).1 (m.feedAll s.qos2 (run s is).2) = true := by
  induction is with
  | nil => intro s m h; simpa [run, Mon.feedAll] using h
  | cons i is ih =>
    intro s m h
    simp only [run]
    rw [feedAll_append]
    have := ih _ _ (rel_step s m i h)
    rw [step_qos2] at this
    exact this

/-! consequences of a monitor that never went `bad` -/

theorem bad_sticky (q2 : Bool) (l : List Act) : ∀ m : Mon, m.bad = true → (m.feedAll q2 l).bad = true := by
  induction l with
  | nil => intro m h; exact h
  | cons a r ih => intro m h; exact ih _ (by cases a <;> simp [Mon.feed, h])

theorem seenRel_sticky (q2 : Bool) (l : List Act) : ∀ m : Mon, m.seenRel = true → (m.feedAll q2 l).seenRel = true := by
  induction l with
  | nil => intro m h; exact h
  | cons a r ih => intro m h; exact ih _ (by cases a <;> simp [Mon.feed, h])

theorem completed_sticky (q2 : Bool) (l : List Act) : ∀ m : Mon, m.completed = true → (m.feedAll q2 l).completed = true := by
  induction l with
  | nil => intro m h; exact h
  | cons a r ih => intro m h; exact ih _ (by cases a <;> simp [Mon.feed, h])

def isWaitAck : Act → Bool | .waitAck => true | _ => false
def isPublish : Act → Bool | .sendPublish _ => true | _ => false
def isCompletion : Act → Bool | .completeOk _ _ => true | .completeErr => true | _ => false

theorem seenWait_eq (q2 : Bool) (l : List Act) : ∀ m : Mon, (m.feedAll q2 l).seenWait = (m.seenWait || l.any isWaitAck) := by
  induction l with
  | nil => intro m; simp [Mon.feedAll]
  | cons a r ih => intro m; simp only [Mon.feedAll, ih, List.any_cons]; cases a <;> simp [Mon.feed, isWaitAck]

theorem feed_publish_bad_of_seenRel (q2 : Bool) (m : Mon) (h : m.seenRel = true) (d : Bool) : (m.feed q2 (.sendPublish d)).bad = true := by
  simp [Mon.feed, h]

theorem feed_publish_bad_of_dup_mismatch (q2 : Bool) (m : Mon) (d : Bool) (h : (d != m.seenWait) = true) : (m.feed q2 (.sendPublish d)).bad = true := by
  simp only [Mon.feed, h, Bool.or_true]

theorem feed_pubrel_seenRel (q2 : Bool) (m : Mon) (t : Bool) : (m.feed q2 (.sendPubrel t)).seenRel = true := by
  simp [Mon.feed]

theorem feed_after_completed_bad (q2 : Bool) (m : Mon) (h : m.completed = true) (a : Act) : (m.feed q2 a).bad = true := by
  cases a <;> simp [Mon.feed, h]

theorem feed_completion_completed (q2 : Bool) (m : Mon) (c : Act) (hc : isCompletion c = true) : (m.feed q2 c).completed = true := by
  cases c <;> simp_all [isCompletion, Mon.feed]

/-- all actions of one `async_publish` (QoS 1 or 2) for a history of sender / reply completions -/
def trace (qos2 : Bool) (is : List In) : List Act := (start qos2).2 ++ (run (start qos2).1 is).2

/-- **the rules of `Mon.feed` hold on every history**: the monitor never reaches `bad` -/
theorem rules_hold (qos2 : Bool) (is : List In) : (({} : Mon).feedAll qos2 (trace qos2 is)).bad = false := by
  have h := rel_run is (start qos2).1 _ (rel_start qos2)
  have hq : (start qos2).1.qos2 = qos2 := rfl
  rw [hq] at h
  unfold trace
  rw [feedAll_append]
  simp only [rel, Bool.and_eq_true, Bool.not_eq_true'] at h
  exact h.1.1.1


end Mqtt5V.Proofs.PubSend
