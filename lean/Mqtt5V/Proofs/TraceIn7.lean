import Mqtt5V.Proofs.TraceIn6
namespace Mqtt5V.Proofs.TraceIn
open Mqtt5V.Model.TraceIn

/-! ### order: QoS 0 and QoS 1 messages reach the application in the order in which they arrived -/
def storedQ (q : Nat) (s : S) : List Nat := s.stored.filterMap fun x => if x.1 = q then some x.2.2 else none
def ackMsgs (rem : List Item) : List Nat := rem.filterMap fun it => match it with | .ackI _ m => some m | _ => none
def seq1 (s : S) (rem : List Item) : List Nat := storedQ 1 s ++ ackMsgs rem ++ s.ackQ.map (·.2)

structure OrdInv (hist : List Ev) (s : S) (rem : List Item) : Prop where
  q0 : (delivered 0 hist ++ storedQ 0 s).Sublist (received 0 hist)
  q1 : (delivered 1 hist ++ seq1 s rem).Sublist (received 1 hist)

theorem received_snoc (q : Nat) (h : List Ev) (e : Ev) :
    received q (h ++ [e]) = received q h ++ (match e with | .rxPub q' _ m => if q' = q then [m] else [] | _ => []) := by
  simp only [received, List.filterMap_append]
  cases e <;> simp
  split <;> simp_all

theorem delivered_snoc (q : Nat) (h : List Ev) (e : Ev) :
    delivered q (h ++ [e]) = delivered q h ++ (match e with | .deliver q' _ m => if q' = q then [m] else [] | _ => []) := by
  simp only [delivered, List.filterMap_append]
  cases e <;> simp
  split <;> simp_all

theorem waitRel_ord (s : S) (pid msg : Nat) : (waitRel s pid msg).stored = s.stored ∧ (waitRel s pid msg).ackQ = s.ackQ := by
  unfold waitRel; split <;> exact ⟨rfl, rfl⟩

theorem ord_congr {hist : List Ev} {s s' : S} {rem : List Item} (I : OrdInv hist s rem) (h1 : s'.stored = s.stored) (h2 : s'.ackQ = s.ackQ) :
    OrdInv hist s' rem := by
  refine ⟨?_, ?_⟩
  · simpa only [storedQ, h1] using I.q0
  · simpa only [seq1, storedQ, h1, h2] using I.q1

theorem storedQ_append (q : Nat) (s : S) (x : Nat × Nat × Nat) :
    storedQ q { s with stored := s.stored ++ [x] } = storedQ q s ++ (if x.1 = q then [x.2.2] else []) := by
  simp only [storedQ, List.filterMap_append, List.filterMap_cons, List.filterMap_nil]
  by_cases h : x.1 = q <;> simp [h]

theorem finishOk_ord {hist : List Ev} {s : S} {it : Item} {rest : List Item} (I : OrdInv hist s (it :: rest)) : OrdInv hist (finishOk s it) rest := by
  cases it with
  | ackI pid msg =>
    refine ⟨?_, ?_⟩
    · simp only [finishOk, storedQ_append]; simpa using I.q0
    · have := I.q1
      simp only [finishOk, seq1, storedQ_append, ackMsgs, List.filterMap_cons] at this ⊢
      simpa [List.append_assoc] using this
  | recI pid msg =>
    have := waitRel_ord s pid msg
    refine ord_congr (s := s) ?_ this.1 this.2
    exact ⟨I.q0, by have := I.q1; simpa only [seq1, ackMsgs, List.filterMap_cons] using this⟩
  | compI pid msg =>
    refine ⟨?_, ?_⟩
    · simp only [finishOk, storedQ_append]; simpa using I.q0
    · have := I.q1
      simp only [finishOk, seq1, storedQ_append, ackMsgs, List.filterMap_cons] at this ⊢
      simpa [List.append_assoc] using this

theorem sublist_drop_mid {α : Type} (a : List α) (x : α) (b c : List α) (h : (a ++ ([x] ++ b)).Sublist c) : (a ++ b).Sublist c :=
  List.Sublist.trans (List.Sublist.append (List.Sublist.refl a) (List.sublist_append_right [x] b)) h

theorem finishFail_ord {hist : List Ev} {s : S} {it : Item} {rest : List Item} (I : OrdInv hist s (it :: rest)) : OrdInv hist (finishFail s it) rest := by
  cases it with
  | ackI pid msg =>
    refine ⟨I.q0, ?_⟩
    have := I.q1
    simp only [finishFail, seq1, ackMsgs, List.filterMap_cons] at this ⊢
    -- the message of the failed PUBACK is given up: a sublist stays a sublist
    have h2 : (delivered 1 hist ++ storedQ 1 s ++ ([msg] ++ (List.filterMap (fun it => match it with | .ackI _ m => some m | _ => none) rest ++ s.ackQ.map (·.2)))).Sublist (received 1 hist) := by
      simpa [List.append_assoc] using this
    have := sublist_drop_mid _ msg _ _ h2
    simpa [List.append_assoc] using this
  | recI pid msg =>
    have := waitRel_ord s pid msg
    refine ord_congr (s := s) ?_ this.1 this.2
    exact ⟨I.q0, by have := I.q1; simpa only [seq1, ackMsgs, List.filterMap_cons] using this⟩
  | compI pid msg =>
    have := waitRel_ord s pid msg
    refine ord_congr (s := s) ?_ this.1 this.2
    exact ⟨I.q0, by have := I.q1; simpa only [seq1, ackMsgs, List.filterMap_cons] using this⟩

theorem drain_ord {hist : List Ev} (f : S → Item → S) (hf : ∀ s it rest, OrdInv hist s (it :: rest) → OrdInv hist (f s it) rest) :
    ∀ (items : List Item) (s : S), OrdInv hist s items → OrdInv hist (drain f s items) [] := by
  intro items
  induction items with
  | nil => intro s I; simpa [drain] using I
  | cons it rest ih => intro s I; exact ih _ (hf s it rest I)

end Mqtt5V.Proofs.TraceIn
