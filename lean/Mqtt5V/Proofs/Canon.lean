import Mqtt5V.Model.PropsText
/-! The content of the library's property container (`canon`) is a fixed point of "assign in order, read back". -/
namespace Mqtt5V.Proofs.Canon
open Mqtt5V.Wire Mqtt5V.Gen.PropTable Mqtt5V.Model.PropsText


def part (ps : Props) (id : Nat) : Props :=
  let mine := ps.filter (fun p => p.id == id)
  match kindOf id with
  | some (_, true) => mine
  | _ => match mine.getLast? with | some p => [p] | none => []

theorem canon_eq (order : List Nat) (ps : Props) : canon order ps = order.flatMap (part ps) := rfl

theorem part_ids (ps : Props) (id : Nat) : ∀ p ∈ part ps id, p.id = id := by
  intro p hp
  unfold part at hp
  simp only at hp
  split at hp
  · simp at hp; exact hp.2
  · split at hp
    · rename_i q hq
      simp at hp
      subst hp
      have := List.mem_of_getLast? hq
      simp at this; exact this.2
    · simp at hp

theorem part_filter_self (ps : Props) (id : Nat) : (part ps id).filter (fun p => p.id == id) = part ps id := by
  apply List.filter_eq_self.mpr
  intro p hp
  simp [part_ids ps id p hp]

theorem part_filter_other (ps : Props) (id x : Nat) (h : x ≠ id) : (part ps x).filter (fun p => p.id == id) = [] := by
  apply List.filter_eq_nil_iff.mpr
  intro p hp
  have := part_ids ps x p hp
  simp [this, h]

theorem filter_canon (order : List Nat) (ps : Props) (id : Nat) (hn : order.Nodup) (hm : id ∈ order) :
    (canon order ps).filter (fun p => p.id == id) = part ps id := by
  rw [canon_eq, List.filter_flatMap]
  induction order with
  | nil => simp at hm
  | cons x r ih =>
    simp only [List.flatMap_cons]
    have hn' := List.nodup_cons.mp hn
    by_cases hx : x = id
    · subst hx
      rw [part_filter_self]
      have : r.flatMap (fun y => (part ps y).filter (fun p => p.id == x)) = [] := by
        apply List.flatMap_eq_nil_iff.mpr
        intro y hy
        exact part_filter_other ps x y (by intro e; subst e; exact hn'.1 hy)
      rw [this]; simp
    · rw [part_filter_other ps id x hx]
      simp only [List.nil_append]
      have : id ∈ r := by
        rcases List.mem_cons.mp hm with h | h
        · exact absurd h.symm hx
        · exact h
      exact ih hn'.2 this

theorem part_idem (order : List Nat) (ps : Props) (id : Nat) (hn : order.Nodup) (hm : id ∈ order) :
    part (canon order ps) id = part ps id := by
  have hf := filter_canon order ps id hn hm
  have h1 : part (canon order ps) id = (match kindOf id with
      | some (_, true) => part ps id
      | _ => match (part ps id).getLast? with | some p => [p] | none => []) := by
    unfold part; simp only [hf]; rfl
  rw [h1]
  cases hk : kindOf id with
  | none =>
    simp only [part, hk]
    cases (ps.filter fun p => p.id == id).getLast? <;> simp
  | some kb =>
    obtain ⟨k, b⟩ := kb
    cases b
    · simp only [part, hk]
      cases (ps.filter fun p => p.id == id).getLast? <;> simp
    · simp only [part, hk]

theorem flatMap_congr' {α β} (l : List α) (f g : α → List β) (h : ∀ x ∈ l, f x = g x) : l.flatMap f = l.flatMap g := by
  induction l with
  | nil => rfl
  | cons x r ih =>
    simp only [List.flatMap_cons]
    rw [h x (by simp), ih (fun y hy => h y (by simp [hy]))]

/-- what the container holds is a fixed point: decoding the re-encoded content gives the same content -/
theorem canon_idem (order : List Nat) (ps : Props) (hn : order.Nodup) : canon order (canon order ps) = canon order ps := by
  rw [canon_eq order (canon order ps), canon_eq order ps]
  exact flatMap_congr' order _ _ (fun id hid => part_idem order ps id hn hid)

theorem mem_part (ps : Props) (id : Nat) (p : Property) (h : p ∈ part ps id) : p ∈ ps := by
  unfold part at h
  simp only at h
  split at h
  · exact (List.mem_filter.mp h).1
  · split at h
    · rename_i q hq
      simp at h
      subst h
      exact (List.mem_filter.mp (List.mem_of_getLast? hq)).1
    · simp at h

theorem mem_canon (order : List Nat) (ps : Props) (p : Property) (h : p ∈ canon order ps) : p ∈ ps := by
  rw [canon_eq] at h
  obtain ⟨id, _, hp⟩ := List.mem_flatMap.mp h
  exact mem_part ps id p hp

end Mqtt5V.Proofs.Canon
