import Mqtt5V.Model.Enc
import Mqtt5V.Spec.Wire
/-! Round-trip lemmas: the strict specification parsers invert the encoder model's combinators. -/
namespace Mqtt5V.Proofs.Enc
open Mqtt5V.Wire Mqtt5V.Model.Enc Mqtt5V.Spec.Wire Mqtt5V.Gen.PropTable

theorem toVariableBytes_length (n : Nat) : (toVariableBytes n).length = variableLength n := by
  unfold toVariableBytes variableLength
  by_cases h : n > 0xfffffff
  · simp [h]
  · simp only [h, if_false]
    by_cases h1 : n > 127
    · by_cases h2 : n > 16383
      · by_cases h3 : n > 2097151
        · have a1 : n / 128 > 127 := by omega
          have a2 : n / 128 / 128 > 127 := by omega
          have a3 : ¬ n / 128 / 128 / 128 > 127 := by omega
          simp [varLoop, h1, h2, h3, a1, a2, a3]
        · have a1 : n / 128 > 127 := by omega
          have a2 : ¬ n / 128 / 128 > 127 := by omega
          simp [varLoop, h1, h2, h3, a1, a2]
      · have a1 : ¬ n / 128 > 127 := by omega
        have h3 : ¬ n > 2097151 := by omega
        simp [varLoop, h1, h2, h3, a1]
    · have h2 : ¬ n > 16383 := by omega
      have h3 : ¬ n > 2097151 := by omega
      simp [varLoop, h1, h2, h3]

/-- **Variable Byte Integer round trip** (and minimal form: the strict parser refuses non-minimal encodings) -/
theorem pVarint_roundtrip (n : Nat) (h : n ≤ 268435455) (r : Bs) : pVarint (toVariableBytes n ++ r) = some (n, r) := by
  unfold toVariableBytes
  have h0 : ¬ n > 0xfffffff := by omega
  simp only [h0, if_false]
  by_cases h1 : n > 127
  · by_cases h2 : n > 16383
    · by_cases h3 : n > 2097151
      · have a1 : n / 128 > 127 := by omega
        have a2 : n / 128 / 128 > 127 := by omega
        have a3 : ¬ n / 128 / 128 / 128 > 127 := by omega
        simp only [varLoop, h1, a1, a2, a3, if_true, if_false, List.cons_append, List.nil_append, pVarint]
        have b1 : ¬ n % 128 + 128 < 128 := by omega
        have b2 : ¬ n % 128 + 128 ≥ 256 := by omega
        have b3 : ¬ n / 128 % 128 + 128 < 128 := by omega
        have b4 : ¬ n / 128 % 128 + 128 ≥ 256 := by omega
        have b5 : ¬ n / 128 / 128 % 128 + 128 < 128 := by omega
        have b6 : ¬ n / 128 / 128 % 128 + 128 ≥ 256 := by omega
        have b7 : n / 128 / 128 / 128 % 128 < 128 ∧ n / 128 / 128 / 128 % 128 ≠ 0 := by omega
        simp only [b1, b2, b3, b4, b5, b6, b7, if_false, and_self, if_true, ne_eq, not_false_eq_true]
        congr 2; omega
      · have a1 : n / 128 > 127 := by omega
        have a2 : ¬ n / 128 / 128 > 127 := by omega
        simp only [varLoop, h1, a1, a2, if_true, if_false, List.cons_append, List.nil_append, pVarint]
        have b1 : ¬ n % 128 + 128 < 128 := by omega
        have b2 : ¬ n % 128 + 128 ≥ 256 := by omega
        have b3 : ¬ n / 128 % 128 + 128 < 128 := by omega
        have b4 : ¬ n / 128 % 128 + 128 ≥ 256 := by omega
        have b5 : n / 128 / 128 % 128 < 128 := by omega
        have b6 : ¬ n / 128 / 128 % 128 = 0 := by omega
        simp only [b1, b2, b3, b4, b5, b6, if_false, if_true]
        congr 2; omega
    · have a1 : ¬ n / 128 > 127 := by omega
      simp only [varLoop, h1, a1, if_true, if_false, List.cons_append, List.nil_append, pVarint]
      have b1 : ¬ n % 128 + 128 < 128 := by omega
      have b2 : ¬ n % 128 + 128 ≥ 256 := by omega
      have b3 : n / 128 % 128 < 128 := by omega
      have b4 : ¬ n / 128 % 128 = 0 := by omega
      simp only [b1, b2, b3, b4, if_false, if_true]
      congr 2; omega
  · simp only [varLoop, h1, if_false, List.cons_append, List.nil_append, pVarint]
    have b1 : n % 128 < 128 := by omega
    simp only [b1, if_true]
    congr 2; omega

theorem pU16_be16 (n : Nat) (h : n < 65536) (r : Bs) : pU16 (be16 n ++ r) = some (n, r) := by
  simp only [be16, List.cons_append, List.nil_append, pU16]
  have : n / 256 % 256 < 256 ∧ n % 256 < 256 := by omega
  simp only [this, and_self, if_true]
  congr 2; omega

theorem pU32_be32 (n : Nat) (h : n < 4294967296) (r : Bs) : pU32 (be32 n ++ r) = some (n, r) := by
  simp only [be32, List.cons_append, List.nil_append, pU32]
  have : n / 16777216 % 256 < 256 ∧ n / 65536 % 256 < 256 ∧ n / 256 % 256 < 256 ∧ n % 256 < 256 := by omega
  simp only [this, and_self, if_true]
  congr 2; omega

theorem pBin_lenPrefixed (s : Bs) (h : s.length ≤ 65535) (r : Bs) : pBin (lenPrefixed s ++ r) = some (s, r) := by
  unfold pBin lenPrefixed
  rw [List.append_assoc, pU16_be16 _ (by omega)]
  simp

/-- a property value that fits its wire type -/
def WFVal : PVal → Prop
  | .u8 n => n < 256
  | .u16 n => n < 65536
  | .u32 n => n < 4294967296
  | .vint n => n ≤ 268435455
  | .str b => b.length ≤ 65535
  | .pair k v => k.length ≤ 65535 ∧ v.length ≤ 65535

def kindOfVal : PVal → Kind
  | .u8 _ => .u8 | .u16 _ => .u16 | .u32 _ => .u32 | .vint _ => .vint | .str _ => .str | .pair _ _ => .pair

theorem pVal_roundtrip (v : PVal) (h : WFVal v) (r : Bs) : pVal (kindOfVal v) (PVal.encode v ++ r) = some (v, r) := by
  cases v with
  | u8 n => simp only [kindOfVal, pVal, PVal.encode, List.cons_append, List.nil_append, pU8]
            have h' : n < 256 := h
            have h2 : n % 256 = n := by omega
            simp [h2, h']
  | u16 n => simp only [kindOfVal, pVal, PVal.encode]; rw [pU16_be16 _ h]; rfl
  | u32 n => simp only [kindOfVal, pVal, PVal.encode]; rw [pU32_be32 _ h]; rfl
  | vint n => simp only [kindOfVal, pVal, PVal.encode]; rw [pVarint_roundtrip _ h]; rfl
  | str b => simp only [kindOfVal, pVal, PVal.encode]; rw [pBin_lenPrefixed _ h]; rfl
  | pair k v => simp only [kindOfVal, pVal, PVal.encode]
                rw [List.append_assoc, pBin_lenPrefixed _ h.1]
                simp only []
                rw [pBin_lenPrefixed _ h.2]; rfl

theorem PVal_encode_length (v : PVal) : (PVal.encode v).length = PVal.size v := by
  cases v <;> simp [PVal.encode, PVal.size, be16, be32, lenPrefixed, lenPrefixedSize, toVariableBytes_length] <;> omega

theorem propsBody_length (ps : Props) : (propsBody ps).length = propsBodySize ps := by
  induction ps with
  | nil => rfl
  | cons p ps ih => simp [propsBody, propsBodySize, propEncode, propSize, PVal_encode_length, ih]; omega

theorem propsEncode_length (m : Bool) (ps : Props) : (propsEncode m ps).length = propsSize m ps := by
  simp only [propsEncode, propsSize]
  split
  · rfl
  · simp [toVariableBytes_length, propsBody_length]; omega

/-- a property the given packet type may carry, well-typed per the standard's table, with a value that fits -/
def WFProp (allowed : List Nat) (p : Property) : Prop :=
  p.id < 256 ∧ allowed.contains p.id = true ∧ Spec.Wire.kindOf p.id = some (kindOfVal p.val) ∧ WFVal p.val

theorem pProperty_roundtrip (allowed : List Nat) (p : Property) (h : WFProp allowed p) (r : Bs) :
    pProperty allowed (propEncode p ++ r) = some (p, r) := by
  obtain ⟨h1, h2, h3, h4⟩ := h
  have hid : p.id % 256 = p.id := by omega
  simp only [propEncode, List.cons_append, pProperty, hid, h2, if_true, h3]
  rw [pVal_roundtrip _ h4]; rfl

theorem pItems_roundtrip (allowed : List Nat) (ps : Props) (h : ∀ p ∈ ps, WFProp allowed p) :
    ∀ fuel, (propsBody ps).length ≤ fuel → pItems allowed fuel (propsBody ps) = some ps := by
  induction ps with
  | nil => intro fuel _; cases fuel <;> rfl
  | cons p ps ih =>
    intro fuel hf
    have hp := h p (by simp)
    have hne : propsBody (p :: ps) = (p.id % 256) :: (PVal.encode p.val ++ propsBody ps) := by
      simp [propsBody, propEncode]
    cases fuel with
    | zero => rw [hne] at hf; simp at hf
    | succ fuel =>
      rw [hne]
      simp only [pItems]
      have : (p.id % 256) :: (PVal.encode p.val ++ propsBody ps) = propEncode p ++ propsBody ps := by simp [propEncode]
      rw [this, pProperty_roundtrip allowed p hp]
      simp only []
      rw [ih (fun q hq => h q (by simp [hq])) fuel (by
        rw [hne] at hf; simp at hf ⊢; omega)]
      rfl

/-- a property list the given packet type may carry -/
structure WFProps (allowed repeatable : List Nat) (ps : Props) : Prop where
  each : ∀ p ∈ ps, WFProp allowed p
  norep : noRepeatViolation repeatable ps = true
  size : propsBodySize ps ≤ 268435455

/-- **property block round trip** (Property Length always present) -/
theorem pProps_roundtrip (allowed rep : List Nat) (ps : Props) (h : WFProps allowed rep ps) (r : Bs) :
    pProps allowed rep (propsEncode false ps ++ r) = some (ps, r) := by
  simp only [pProps, propsEncode, Bool.false_and, Bool.false_eq_true, if_false]
  rw [List.append_assoc, pVarint_roundtrip _ h.size]
  have hl : propsBodySize ps = (propsBody ps).length := (propsBody_length ps).symm
  simp only [hl, List.length_append, Nat.le_add_right, if_true, List.take_left', List.drop_left']
  rw [pItems_roundtrip allowed ps h.each _ (Nat.le_refl _)]
  simp [h.norep]

end Mqtt5V.Proofs.Enc
