import Mqtt5V.Model.TraceDisc
namespace Mqtt5V.Proofs.TraceDisc
open Mqtt5V.Model.TraceDisc

theorem run_append (s : S) (a b : List Ev) : run s (a ++ b) = (run s a).bind (run · b) := by
  induction a generalizing s with
  | nil => simp [run]
  | cons e es ih =>
    simp only [List.cons_append, run]
    cases step s e with
    | none => simp
    | some s1 => simp [ih]

theorem run_split {s s' : S} {a b : List Ev} (h : run s (a ++ b) = some s') : ∃ s1, run s a = some s1 ∧ run s1 b = some s' := by
  rw [run_append] at h
  cases h1 : run s a with
  | none => simp [h1] at h
  | some s1 => exact ⟨s1, rfl, by simpa [h1] using h⟩

/-- while the connection stays the same and nothing is written, "a DISCONNECT was written on this connection" stays true -/
theorem said_kept : ∀ (l : List Ev) (s s' : S), sameConn l → noWriteEv l → run s l = some s' →
    s'.said = s.said ∧ s'.connected = s.connected ∧ s'.writing = s.writing := by
  intro l; induction l with
  | nil => intro s s' _ _ h; simp [run] at h; subst h; exact ⟨rfl, rfl, rfl⟩
  | cons e es ih =>
    intro s s' hc hw h
    have he := hc e (by simp); have hwe := hw e (by simp)
    cases e <;> simp_all

/-- **C09 on accepted event lists (1)**: a DISCONNECT is alone in its write: nothing is written before it in the same write … -/
theorem disconnect_first_in_write {pre mid post : List Ev} (hacc : accepts (pre ++ .wr :: mid ++ .pkDisc :: post) = true)
    (hmid : ∀ e ∈ mid, e = .pkOther ∨ e = .pkDisc) : mid = [] := by
  simp only [accepts, Option.isSome_iff_exists] at hacc
  obtain ⟨s, hr⟩ := hacc
  have e1 : pre ++ Ev.wr :: mid ++ Ev.pkDisc :: post = (pre ++ [Ev.wr]) ++ (mid ++ Ev.pkDisc :: post) := by simp
  rw [e1] at hr
  obtain ⟨s1, hr1, hr2⟩ := run_split hr
  obtain ⟨s0, hr0, hrw⟩ := run_split hr1
  simp only [run] at hrw
  cases hs : step s0 .wr with
  | none => simp [hs] at hrw
  | some sw =>
    simp only [hs, Option.bind_some, Option.some.injEq] at hrw; subst hrw
    simp only [step] at hs; split at hs
    · simp at hs
    · simp only [Option.some.injEq] at hs; subst hs
      -- after `wr` the count is 0; any packet in `mid` makes it positive or sets hasDisc, and then pkDisc is refused
      cases mid with
      | nil => rfl
      | cons m ms =>
        exfalso
        have key : ∀ (l : List Ev) (t t' : S), (∀ e ∈ l, e = Ev.pkOther ∨ e = Ev.pkDisc) → t.writing = true → (0 < t.count) →
            run t (l ++ Ev.pkDisc :: post) = some t' → False := by
          intro l; induction l with
          | nil =>
            intro t t' _ hw hc h
            simp only [List.nil_append, run] at h
            simp only [step, hw, Bool.true_and] at h
            have : ¬ (t.count = 0) := by omega
            simp [this] at h
          | cons x xs ih =>
            intro t t' hx hw hc h
            simp only [List.cons_append, run] at h
            cases hsx : step t x with
            | none => simp [hsx] at h
            | some t1 =>
              simp only [hsx, Option.bind_some] at h
              rcases hx x (by simp) with rfl | rfl
              · simp only [step] at hsx; split at hsx
                · simp only [Option.some.injEq] at hsx; subst hsx
                  exact ih { t with count := t.count + 1 } t' (fun e he => hx e (by simp [he])) hw (by simp) h
                · simp at hsx
              · simp only [step, hw, Bool.true_and] at hsx
                have : ¬ (t.count = 0) := by omega
                simp [this] at hsx
        simp only [List.cons_append, run] at hr2
        cases hsm : step { s0 with writing := true, count := 0, hasDisc := false } m with
        | none => simp [hsm] at hr2
        | some t1 =>
          simp only [hsm, Option.bind_some] at hr2
          rcases hmid m (by simp) with rfl | rfl
          · simp only [step] at hsm; simp at hsm; subst hsm
            exact key ms _ s (fun e he => hmid e (by simp [he])) rfl (by simp) hr2
          · simp only [step] at hsm; simp at hsm; subst hsm
            exact key ms _ s (fun e he => hmid e (by simp [he])) rfl (by simp) hr2

/-- … and nothing after it -/
theorem nothing_after_disconnect_in_write {pre post : List Ev} {e : Ev} (hacc : accepts (pre ++ .pkDisc :: e :: post) = true) :
    e ≠ .pkOther ∧ e ≠ .pkDisc := by
  simp only [accepts, Option.isSome_iff_exists] at hacc
  obtain ⟨s, hr⟩ := hacc
  obtain ⟨s0, hr0, hr1⟩ := run_split hr
  simp only [run] at hr1
  cases hs : step s0 .pkDisc with
  | none => simp [hs] at hr1
  | some s1 =>
    simp only [hs, Option.bind_some] at hr1
    simp only [step] at hs; split at hs
    · simp only [Option.some.injEq] at hs; subst hs
      cases hs2 : step { s0 with count := 1, hasDisc := true } e with
      | none => simp [hs2] at hr1
      | some s2 =>
        constructor
        · rintro rfl; simp [step] at hs2
        · rintro rfl; simp [step] at hs2
    · simp at hs

def ConnInv (hist : List Ev) (s : S) : Prop := s.connected = connectedOf hist

theorem connectedOf_snoc (h : List Ev) (e : Ev) :
    connectedOf (h ++ [e]) = (match e with | .connUp => true | .connDown => false | _ => connectedOf h) := by
  simp only [connectedOf, List.foldl_append, List.foldl_cons, List.foldl_nil]
  cases e <;> rfl

theorem conn_run : ∀ (l pre : List Ev) (s s' : S), s.connected = connectedOf pre → run s l = some s' → s'.connected = connectedOf (pre ++ l) := by
  intro l; induction l with
  | nil => intro pre s s' hI h; simp [run] at h; subst h; simpa using hI
  | cons e es ih =>
    intro pre s s' hI h
    simp only [run] at h
    cases hs : step s e with
    | none => simp [hs] at h
    | some s1 =>
      simp only [hs, Option.bind_some] at h
      have h1 : s1.connected = connectedOf (pre ++ [e]) := by
        rw [connectedOf_snoc]
        cases e <;> simp only [step] at hs <;> (try split at hs) <;> simp_all <;> (subst hs; simp_all)
      have := ih (pre ++ [e]) s1 s' h1 h
      simpa [List.append_assoc] using this

/-- **C09 on accepted event lists (2)**: after a write that carried a DISCONNECT has completed successfully on a live connection, no write is
started on that connection any more (the next thing at write level is the end of the connection) -/
theorem silence_after_disconnect {pre post : List Ev} (hacc : accepts (pre ++ .pkDisc :: .wrOk :: .wr :: post) = true) :
    connectedOf pre = false := by
  simp only [accepts, Option.isSome_iff_exists] at hacc
  obtain ⟨s, hr⟩ := hacc
  obtain ⟨s0, hr0, hr1⟩ := run_split hr
  have hc : s0.connected = connectedOf pre := by simpa using conn_run pre [] init s0 rfl hr0
  simp only [run] at hr1
  cases h1 : step s0 .pkDisc with
  | none => simp [h1] at hr1
  | some s1 =>
    simp only [h1, Option.bind_some] at hr1
    simp only [step] at h1; split at h1
    · simp only [Option.some.injEq] at h1; subst h1
      cases h2 : step { s0 with count := 1, hasDisc := true } .wrOk with
      | none => simp [h2] at hr1
      | some s2 =>
        simp only [h2, Option.bind_some] at hr1
        simp only [step] at h2; split at h2
        · simp only [Option.some.injEq] at h2; subst h2
          cases hcc : s0.connected
          · rw [← hc]; exact hcc
          · simp [step, hcc] at hr1
        · simp at h2
    · simp at h1

end Mqtt5V.Proofs.TraceDisc
