import Mqtt5V.Model.TraceDiscT
namespace Mqtt5V.Proofs.TraceDiscT
open Mqtt5V.Model.TraceDiscT Mqtt5V.Gen.Timing

theorem run_append (s : S) (a b : List Ev) : run s (a ++ b) = (run s a).bind (run · b) := by
  induction a generalizing s with
  | nil => simp [run]
  | cons e es ih =>
    simp only [List.cons_append, run]
    cases step s e with
    | none => simp
    | some s' => simpa using ih s'

theorem state_is_obs (tr : List Ev) (st : Nat × Option Nat) (s s' : S) (hn : s.now = st.1) (hp : s.pending = st.2)
    (h : run s tr = some s') : s'.now = (tr.foldl obsStep st).1 ∧ s'.pending = (tr.foldl obsStep st).2 := by
  induction tr generalizing st s with
  | nil => simp only [run, Option.some.injEq] at h; subst h; exact ⟨hn, hp⟩
  | cons e es ih =>
    simp only [run] at h
    cases hs : step s e with
    | none => rw [hs] at h; cases h
    | some s1 =>
      rw [hs] at h
      simp only [Option.bind_some] at h
      simp only [List.foldl_cons]
      apply ih (obsStep st e) s1 _ _ h
      · cases e <;> simp only [step] at hs
        · split at hs
          · cases hs
          · cases hs; simp [obsStep, hn]
        · split at hs
          · split at hs
            · cases hs
            · cases hs; simp [obsStep, hn]
          · cases hs; simp [obsStep, hn]
        · split at hs
          · cases hs; simp [obsStep, hn]
          · cases hs
      · cases e <;> simp only [step] at hs
        · split at hs
          · cases hs
          · cases hs; simp [obsStep, hn]
        · split at hs
          · split at hs
            · cases hs
            · cases hs; simp [obsStep, hp]
          · cases hs; simp [obsStep, hp]
        · split at hs
          · cases hs; simp [obsStep]
          · cases hs

theorem run_snoc {tr : List Ev} {e : Ev} {s : S} (h : run init (tr ++ [e]) = some s) :
    ∃ s1, run init tr = some s1 ∧ step s1 e = some s := by
  rw [run_append] at h
  cases h1 : run init tr with
  | none => rw [h1] at h; cases h
  | some s1 =>
    rw [h1] at h
    refine ⟨s1, rfl, ?_⟩
    simp only [Option.bind_some, run] at h
    cases h2 : step s1 e with
    | none => rw [h2] at h; cases h
    | some s2 => rw [h2] at h; simpa using h

/-- **done within the limit**: the clock never moves on from a moment at or past `disconnectLimitMs` (5 s, translated from the source) after the
initiation of an `async_disconnect` that is still in progress: the operation completes no later than at the first clock value that reaches the
limit — reachable broker or not, whatever the write in progress does -/
theorem disconnect_done_within_limit {tr : List Ev} {ms : Nat} {s : S} (h : run init (tr ++ [.adv ms]) = some s) (t0 : Nat)
    (hp : (obs tr).2 = some t0) : (obs tr).1 < t0 + disconnectLimitMs := by
  obtain ⟨s1, h1, h2⟩ := run_snoc h
  obtain ⟨hn, hq⟩ := state_is_obs tr (0, none) init s1 rfl rfl h1
  simp only [step] at h2
  have : s1.pending = some t0 := by rw [hq]; exact hp
  rw [this] at h2
  simp only at h2
  split at h2
  · cases h2
  · have e1 : (obs tr).1 = s1.now := hn.symm
    rw [e1]; omega

end Mqtt5V.Proofs.TraceDiscT
