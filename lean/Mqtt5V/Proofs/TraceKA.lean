import Mqtt5V.Model.TraceKA
/-! Invariant of the keep-alive model against what an observer computes from the events alone, and the three statements of C12 on it. -/
namespace Mqtt5V.Proofs.TraceKA
open Mqtt5V.Model.TraceKA Mqtt5V.Gen.Timing

theorem run_append (s : S) (a b : List Ev) : run s (a ++ b) = (run s a).bind (run · b) := by
  induction a generalizing s with
  | nil => simp [run]
  | cons e es ih =>
    simp only [List.cons_append, run]
    cases step s e with
    | none => simp
    | some s' => simpa using ih s'

theorem pingWait_some {k x : Nat} : pingWaitMs k = some x ↔ (k ≠ 0 ∧ x = k * 1000) := by
  unfold pingWaitMs; split <;> simp_all [eq_comm]

structure Inv (o : Obs) (s : S) : Prop where
  now : s.now = o.now
  cfg : s.cfgK = o.cfg
  ska : s.ska = o.ska
  wri : s.writing = o.writing
  bat : s.inBatch = o.batchPing
  idle : s.phase = .idle ↔ o.running = false
  wait : ∀ d, s.phase = .waiting d → d = (pingWaitMs o.kArm).map (o.lastReset + ·) ∧ ∀ x, d = some x → s.now < x
  send : s.phase = .sending → s.queued = true ∨ s.inBatch = true
  batW : s.inBatch = true → s.writing = true
  qs : s.queued = true → s.phase = .sending
  bs : s.inBatch = true → s.phase = .sending
  pos : (s.phase = .sending ∨ ∃ x, s.phase = .waiting (some x)) → 0 < o.kMax

theorem inv_init : Inv {} init := by
  refine ⟨rfl, rfl, rfl, rfl, rfl, by simp [init], ?_, ?_, ?_, ?_, ?_, ?_⟩ <;> simp [init]

theorem K_eq {o : Obs} {s : S} (I : Inv o s) : s.K = o.K := by
  simp [S.K, Obs.K, I.cfg, I.ska]

/-- arming at a reset point re-establishes the invariant -/
theorem inv_arm {o : Obs} {s : S} (hnow : s.now = o.now) (hcfg : s.cfgK = o.cfg) (hska : s.ska = o.ska) (hwri : s.writing = o.writing)
    (hbat : o.batchPing = false) (hrun : o.running = true) : Inv o.reset (arm s) := by
  have hK : s.K = o.K := by simp [S.K, Obs.K, hcfg, hska]
  refine ⟨hnow, hcfg, hska, hwri, by simp [arm, Obs.reset, hbat], by simp [arm, Obs.reset, hrun], ?_, by simp [arm], by simp [arm], by simp [arm], by simp [arm], ?_⟩
  · intro d hd
    simp only [arm, Phase.waiting.injEq] at hd
    subst hd
    refine ⟨by simp [Obs.reset, hK, hnow], ?_⟩
    intro x hx
    simp only [Option.map_eq_some_iff] at hx
    obtain ⟨a, ha, hx⟩ := hx
    rw [pingWait_some] at ha
    simp only [arm]; omega
  · intro h
    rcases h with h | ⟨x, h⟩
    · simp [arm] at h
    · simp only [arm, Phase.waiting.injEq, Option.map_eq_some_iff] at h
      obtain ⟨a, ha, _⟩ := h
      rw [pingWait_some] at ha
      simp only [Obs.reset, ← hK]; omega


theorem running_of {o : Obs} {s : S} (I : Inv o s) (h : s.phase ≠ .idle) : o.running = true := by
  cases hr : o.running with
  | true => rfl
  | false => exact absurd (I.idle.mpr hr) h

theorem inv_step {o : Obs} {s s' : S} {e : Ev} (I : Inv o s) (h : step s e = some s') : Inv (obsStep o e) s' := by
  cases e with
  | cfg k =>
    simp only [step] at h
    split at h
    · cases h
      exact ⟨I.now, rfl, I.ska, I.wri, I.bat, I.idle, I.wait, I.send, I.batW, I.qs, I.bs, I.pos⟩
    · cases h
  | run =>
    simp only [step] at h
    split at h
    · rename_i hid
      cases h
      have hb : s.inBatch = false := by
        cases hx : s.inBatch with
        | false => rfl
        | true => have := I.bs hx; rw [hid] at this; cases this
      exact inv_arm (o := { o with running := true }) I.now I.cfg I.ska I.wri (by rw [← I.bat]; exact hb) rfl
    · cases h
  | connUp ska =>
    simp only [step] at h; cases h
    exact ⟨I.now, I.cfg, rfl, I.wri, I.bat, I.idle, I.wait, I.send, I.batW, I.qs, I.bs, I.pos⟩
  | refresh =>
    simp only [step] at h
    split at h
    · rename_i d hp
      cases h
      have hb : s.inBatch = false := by
        cases hx : s.inBatch with
        | false => rfl
        | true => have := I.bs hx; rw [hp] at this; cases this
      exact inv_arm I.now I.cfg I.ska I.wri (by rw [← I.bat]; exact hb) (running_of I (by rw [hp]; simp))
    · rename_i hnw
      cases h
      refine ⟨I.now, I.cfg, I.ska, I.wri, I.bat, I.idle, ?_, I.send, I.batW, I.qs, I.bs, ?_⟩
      · intro d hd; exact absurd hd (hnw d)
      · intro hh
        have := I.pos hh
        simp only [obsStep, Obs.reset]; omega
  | adv ms =>
    simp only [step] at h
    split at h
    · rename_i d hp
      try simp only at hp
      split at h
      · cases h
        refine ⟨by simp [obsStep, I.now], I.cfg, I.ska, I.wri, I.bat, ?_, ?_, ?_, I.batW, ?_, ?_, ?_⟩
        · simp only [obsStep]; constructor
          · intro hh; cases hh
          · intro hh; have := I.idle.mpr hh; rw [hp] at this; cases this
        · intro d' hd'; cases hd'
        · intro _; exact Or.inl rfl
        · intro _; rfl
        · intro _; rfl
        · intro _; exact I.pos (Or.inr ⟨d, hp⟩)
      · rename_i hlt
        cases h
        refine ⟨by simp [obsStep, I.now], I.cfg, I.ska, I.wri, I.bat, I.idle, ?_, I.send, I.batW, I.qs, I.bs, I.pos⟩
        intro d' hd'
        refine ⟨(I.wait d' hd').1, ?_⟩
        intro x hx
        simp only at hd'
        rw [hp] at hd'; cases hd'; cases hx
        simp only at hlt ⊢; omega
    · rename_i hnw
      cases h
      refine ⟨by simp [obsStep, I.now], I.cfg, I.ska, I.wri, I.bat, I.idle, ?_, I.send, I.batW, I.qs, I.bs, I.pos⟩
      intro d' hd'
      refine ⟨(I.wait d' hd').1, ?_⟩
      intro x hx
      subst hx
      exact absurd hd' (hnw x)
  | rd t =>
    simp only [step] at h
    split at h
    · cases h; exact I
    · cases h
  | wr p t =>
    simp only [step] at h
    split at h
    · cases h
    · rename_i hw
      split at h
      · rename_i ht
        split at h
        · cases h
        · rename_i hp
          cases h
          refine ⟨I.now, I.cfg, I.ska, by simp [obsStep], by simp [obsStep, ht], I.idle, I.wait, ?_, by simp, I.qs, by simp, I.pos⟩
          intro hs
          rcases I.send hs with hq | hb
          · exact Or.inl hq
          · have := I.batW hb; simp [this] at hw
      · rename_i ht
        split at h
        · rename_i hpq
          cases h
          refine ⟨I.now, I.cfg, I.ska, by simp [obsStep], by simp [obsStep, ht], I.idle, I.wait, ?_, by simp, by simp, ?_, I.pos⟩
          · intro hs
            rcases I.send hs with hq | hb
            · right; simp [hpq, hq]
            · have := I.batW hb; simp [this] at hw
          · intro hb; simp only at hb; exact I.qs (by rw [← hpq]; exact hb)
        · cases h
  | wrOk =>
    simp only [step] at h
    split at h
    · cases h
    · rename_i hw
      split at h
      · rename_i hb
        cases h
        have hob : o.batchPing = true := by rw [← I.bat]; exact hb
        simp only [obsStep, hob, if_true]
        have hph := I.bs hb
        have hr : o.running = true := running_of I (by rw [hph]; simp)
        exact inv_arm (s := { s with writing := false }) (o := { o with writing := false, batchPing := false })
          I.now I.cfg I.ska rfl rfl hr
      · rename_i hb
        cases h
        have hob : o.batchPing = false := by rw [← I.bat]; simpa using hb
        simp only [obsStep, hob]
        refine ⟨I.now, I.cfg, I.ska, rfl, by simp [hob, I.bat], I.idle, I.wait, ?_, ?_, I.qs, I.bs, I.pos⟩
        · intro hs
          rcases I.send hs with hq | hb'
          · exact Or.inl hq
          · exact absurd hb' hb
        · intro hb'; exact absurd hb' hb
  | wrFail =>
    simp only [step] at h
    split at h
    · cases h
    · rename_i hw
      split at h
      · rename_i hp
        cases h
        have hr : o.running = false := I.idle.mp hp
        refine ⟨I.now, I.cfg, I.ska, rfl, rfl, by simp [obsStep, Obs.reset, hp, hr], ?_, ?_, by simp, by simp, by simp, ?_⟩
        · intro d hd; simp only at hd; rw [hp] at hd; cases hd
        · intro hs; simp only at hs; rw [hp] at hs; cases hs
        · intro hh; simp only at hh; rw [hp] at hh; rcases hh with hh | ⟨x, hh⟩ <;> cases hh
      · rename_i hp
        cases h
        have hr : o.running = true := running_of I (by intro hh; exact hp hh)
        exact inv_arm (s := { s with writing := false }) (o := { o with writing := false, batchPing := false })
          I.now I.cfg I.ska rfl rfl hr
  | wrAbort =>
    simp only [step] at h
    split at h
    · cases h
      refine ⟨I.now, I.cfg, I.ska, rfl, rfl, I.idle, I.wait, ?_, by simp, I.qs, by simp, I.pos⟩
      rename_i hc
      simp only [Bool.and_eq_true, decide_eq_true_eq] at hc
      intro hs
      simp only at hs
      rw [hc.2] at hs; cases hs
    · cases h
  | wrFatal =>
    simp only [step] at h
    split at h
    · cases h
      refine ⟨I.now, I.cfg, I.ska, rfl, rfl, by simp [obsStep], ?_, ?_, by simp, by simp, by simp, ?_⟩
      · intro d hd; cases hd
      · intro hs; cases hs
      · intro hh; rcases hh with hh | ⟨x, hh⟩ <;> cases hh
    · cases h
  | stop =>
    simp only [step] at h; cases h
    refine ⟨I.now, I.cfg, I.ska, I.wri, ?_, by simp [obsStep], ?_, ?_, by simp, by simp, by simp, ?_⟩
    · simp [obsStep]
    · intro d hd; cases hd
    · intro hs; cases hs
    · intro hh; rcases hh with hh | ⟨x, hh⟩ <;> cases hh
  | eol =>
    simp only [step] at h
    split at h
    · cases h
    · cases h; exact I


theorem inv_run {o : Obs} {s s' : S} (tr : List Ev) (I : Inv o s) (h : run s tr = some s') : Inv (tr.foldl obsStep o) s' := by
  induction tr generalizing o s with
  | nil => simp only [run, Option.some.injEq] at h; subst h; exact I
  | cons e es ih =>
    simp only [run] at h
    cases hs : step s e with
    | none => rw [hs] at h; cases h
    | some s1 =>
      rw [hs] at h
      exact ih (inv_step I hs) (by simpa using h)

theorem inv_reach {tr : List Ev} {s : S} (h : run init tr = some s) : Inv (obs tr) s := inv_run tr inv_init h

/-- splitting off the last event of an accepted list -/
theorem run_snoc {tr : List Ev} {e : Ev} {s : S} (h : run init (tr ++ [e]) = some s) :
    ∃ s1, run init tr = some s1 ∧ step s1 e = some s := by
  rw [run_append] at h
  cases h1 : run init tr with
  | none => rw [h1] at h; cases h
  | some s1 =>
    rw [h1] at h
    refine ⟨s1, rfl, ?_⟩
    simp only [Option.bind_some, run] at h
    cases h2 : step s1 e with
    | none => rw [h2] at h; cases h
    | some s2 => rw [h2] at h; simpa using h

/-- **PINGREQ by the deadline.**  Whenever the execution context has run out of ready handlers, on a running client whose keep-alive was
K > 0 when the ping timer was last (re)armed — at `async_run`, at a session refresh after a (re)connection, at the end of the write that carried
the previous PINGREQ — less than K seconds have passed since then, or a write is in progress (the PINGREQ is in it or waits right behind it). -/
theorem ping_by_deadline {tr : List Ev} {s : S} (h : run init (tr ++ [.eol]) = some s)
    (hr : (obs tr).running = true) (hk : 0 < (obs tr).kArm) :
    (obs tr).now < (obs tr).lastReset + 1000 * (obs tr).kArm ∨ (obs tr).writing = true := by
  obtain ⟨s1, h1, h2⟩ := run_snoc h
  have I := inv_reach h1
  simp only [step] at h2
  split at h2
  · cases h2
  · rename_i hg
    cases hp : s1.phase with
    | idle => have := I.idle.mp hp; rw [hr] at this; cases this
    | waiting d =>
      obtain ⟨hd, hlt⟩ := I.wait d hp
      have hw : pingWaitMs (obs tr).kArm = some ((obs tr).kArm * 1000) := pingWait_some.mpr ⟨by omega, rfl⟩
      rw [hw] at hd
      simp only [Option.map_some] at hd
      have := hlt _ hd
      left; rw [← I.now]; omega
    | sending =>
      right; rw [← I.wri]
      rcases I.send hp with hq | hb
      · cases hw : s1.writing with
        | true => rfl
        | false => simp [hq, hw] at hg
      · exact I.batW hb

/-- **No PINGREQ without a keep-alive.**  A write that carries a PINGREQ is started only if a positive keep-alive was in force at one of the
moments the ping timer was armed; in particular never on a client configured with keep-alive 0 whose brokers set no Server Keep Alive. -/
theorem ping_needs_keepalive {tr : List Ev} {t : Bool} {s : S} (h : run init (tr ++ [.wr true t]) = some s) : 0 < (obs tr).kMax := by
  obtain ⟨s1, h1, h2⟩ := run_snoc h
  have I := inv_reach h1
  simp only [step] at h2
  split at h2
  · cases h2
  · split at h2
    · simp at h2
    · split at h2
      · rename_i hq
        exact I.pos (Or.inl (I.qs hq.symm))
      · cases h2

/-- **Every read is started with the time-out 1.5 · K** of the keep-alive negotiated at that moment (never, for K = 0). -/
theorem read_timeout_rule {tr : List Ev} {t : Option Nat} {s : S} (h : run init (tr ++ [.rd t]) = some s) :
    t = readTimeoutMs (negotiated (obs tr).ska (obs tr).cfg) := by
  obtain ⟨s1, h1, h2⟩ := run_snoc h
  have I := inv_reach h1
  simp only [step] at h2
  split at h2
  · rename_i ht
    rw [ht, K_eq I]; rfl
  · cases h2

/-- keep-alive 0 configured and no broker sets a Server Keep Alive other than 0 -/
def ZeroObs (o : Obs) : Prop := o.kMax = 0 ∧ o.cfg = 0 ∧ (o.ska = none ∨ o.ska = some 0)

theorem ZeroObs.K {o : Obs} (z : ZeroObs o) : o.K = 0 := by
  obtain ⟨_, hc, hs | hs⟩ := z <;> simp [Obs.K, negotiated, hc, hs]

theorem zero_step {o : Obs} {e : Ev} (z : ZeroObs o) (hc : ∀ k, e = .cfg k → k = 0) (hu : ∀ ska, e = .connUp ska → ska = none ∨ ska = some 0) :
    ZeroObs (obsStep o e) := by
  have hK := z.K
  obtain ⟨h0, hcf, hs⟩ := z
  cases e with
  | cfg k => exact ⟨h0, hc k rfl, hs⟩
  | connUp ska => exact ⟨h0, hcf, hu ska rfl⟩
  | run => refine ⟨?_, hcf, hs⟩; simp only [obsStep, Obs.reset]; have : Obs.K { o with running := true } = 0 := hK; rw [this, h0]; rfl
  | refresh => refine ⟨?_, hcf, hs⟩; simp only [obsStep, Obs.reset]; rw [hK, h0]; rfl
  | adv ms => exact ⟨h0, hcf, hs⟩
  | rd t => exact ⟨h0, hcf, hs⟩
  | wr p t => exact ⟨h0, hcf, hs⟩
  | wrOk =>
    simp only [obsStep]
    split
    · refine ⟨?_, hcf, hs⟩; simp only [Obs.reset]; have : Obs.K { o with writing := false, batchPing := false } = 0 := hK; rw [this, h0]; rfl
    · exact ⟨h0, hcf, hs⟩
  | wrFail => refine ⟨?_, hcf, hs⟩; simp only [obsStep, Obs.reset]; have : Obs.K { o with writing := false, batchPing := false } = 0 := hK; rw [this, h0]; rfl
  | wrAbort => exact ⟨h0, hcf, hs⟩
  | wrFatal => exact ⟨h0, hcf, hs⟩
  | stop => exact ⟨h0, hcf, hs⟩
  | eol => exact ⟨h0, hcf, hs⟩

theorem zero_run (tr : List Ev) (o : Obs) (z : ZeroObs o) (hc : ∀ k, Ev.cfg k ∈ tr → k = 0)
    (hu : ∀ ska, Ev.connUp ska ∈ tr → ska = none ∨ ska = some 0) : ZeroObs (tr.foldl obsStep o) := by
  induction tr generalizing o with
  | nil => exact z
  | cons e es ih =>
    simp only [List.foldl_cons]
    apply ih
    · exact zero_step z (fun k he => hc k (by rw [he]; exact List.mem_cons_self)) (fun k he => hu k (by rw [he]; exact List.mem_cons_self))
    · exact fun k hm => hc k (List.mem_cons_of_mem _ hm)
    · exact fun k hm => hu k (List.mem_cons_of_mem _ hm)

/-- **Keep-alive 0: no PINGREQ, ever.**  A client configured with keep-alive 0, on connections whose CONNACK carries no Server Keep Alive (or 0),
never starts a write that carries a PINGREQ. -/
theorem no_ping_with_keepalive_zero {tr : List Ev} {t : Bool} {s : S} (h : run init (.cfg 0 :: tr ++ [.wr true t]) = some s)
    (hc : ∀ k, Ev.cfg k ∈ tr → k = 0) (hu : ∀ ska, Ev.connUp ska ∈ tr → ska = none ∨ ska = some 0) : False := by
  have hp := ping_needs_keepalive (tr := .cfg 0 :: tr) (by simpa using h)
  have z : ZeroObs (obs (.cfg 0 :: tr)) := by
    simp only [obs, List.foldl_cons]
    exact zero_run tr _ ⟨rfl, rfl, Or.inl rfl⟩ hc hu
  rw [z.1] at hp; cases hp

end Mqtt5V.Proofs.TraceKA
