import Mqtt5V.Proofs.Trace
/-! Truthfulness invariant of the composed outbound model: every phase of an exchange is backed by a chain of earlier events
(request written, acknowledgements read, PUBREL written); `success_truthful` is the statement behind C01 and C14. -/
namespace Mqtt5V.Proofs.Trace
open Mqtt5V.Model.Trace


/-! ### Chains -/
theorem chain_mono {Ps : List (Ev → Prop)} {h : List Ev} (t : List Ev) (c : Chain Ps h) : Chain Ps (h ++ t) := by
  induction Ps generalizing h with
  | nil => trivial
  | cons P Ps ih =>
    obtain ⟨h1, e, h2, rfl, hP, c2⟩ := c
    exact ⟨h1, e, h2 ++ t, by simp, hP, ih c2⟩

theorem chain_snoc {Ps : List (Ev → Prop)} {h : List Ev} {P : Ev → Prop} {e : Ev} (c : Chain Ps h) (hP : P e) :
    Chain (Ps ++ [P]) (h ++ [e]) := by
  induction Ps generalizing h with
  | nil => exact ⟨h, e, [], by simp, hP, trivial⟩
  | cons Q Qs ih =>
    obtain ⟨h1, e1, h2, rfl, hQ, c2⟩ := c
    exact ⟨h1, e1, h2 ++ [e], by simp, hQ, ih c2⟩

theorem chain_prefix {Ps Qs : List (Ev → Prop)} {h : List Ev} (c : Chain (Ps ++ Qs) h) : Chain Ps h := by
  induction Ps generalizing h with
  | nil => trivial
  | cons P Ps ih =>
    obtain ⟨h1, e, h2, rfl, hP, c2⟩ := c
    exact ⟨h1, e, h2, rfl, hP, ih c2⟩

theorem chain_one_snoc {h : List Ev} {P : Ev → Prop} {e : Ev} (hP : P e) : Chain [P] (h ++ [e]) :=
  chain_snoc (Ps := []) (h := h) trivial hP

/-! ### Truthfulness invariant -/

def PhaseOK (hist : List Ev) (p : Nat) (sl : Slot) : Prop :=
  match sl.phase with
  | .idle => True
  | .writing | .waiting => Chain [isReq sl.op p] hist
  | .relIdle => sl.kind = .pub2 ∧ ∃ r, okRec p sl.n r ∧ Chain [isReq sl.op p, isRx r] hist
  | .relWriting | .relWaiting => sl.kind = .pub2 ∧ ∃ r, okRec p sl.n r ∧ Chain [isReq sl.op p, isRx r, isRel p] hist
  | .finished rcs props => Truthful hist sl.op p sl.kind sl.n rcs props

def FastOK (hist : List Ev) (p : Nat) (sl : Slot) : Prop :=
  ∀ a, sl.fast = some a → expects sl.kind sl.phase = some a.t ∧ a.pid = p ∧
    (match sl.phase with
     | .writing => Chain [isReq sl.op p, isRx a] hist
     | .relWriting => ∃ r, okRec p sl.n r ∧ Chain [isReq sl.op p, isRx r, isRel p, isRx a] hist
     | _ => False)

def TruthInv (hist : List Ev) (s : S) : Prop := ∀ p sl, s.slot p = some sl → PhaseOK hist p sl ∧ FastOK hist p sl

theorem truthful_mono {hist : List Ev} (t : List Ev) {op p k n rcs props} (h : Truthful hist op p k n rcs props) :
    Truthful (hist ++ t) op p k n rcs props := by
  rcases h with ⟨a, c, h⟩ | ⟨hk, r, a, hr, c, h⟩
  · exact Or.inl ⟨a, chain_mono t c, h⟩
  · exact Or.inr ⟨hk, r, a, hr, chain_mono t c, h⟩

theorem phaseOK_mono {hist : List Ev} (t : List Ev) {p : Nat} {sl : Slot} (h : PhaseOK hist p sl) : PhaseOK (hist ++ t) p sl := by
  unfold PhaseOK at *
  split <;> simp_all only
  · exact chain_mono t h
  · exact chain_mono t h
  · obtain ⟨hk, r, hr, c⟩ := h; exact ⟨trivial, r, hr, chain_mono t c⟩
  · obtain ⟨hk, r, hr, c⟩ := h; exact ⟨trivial, r, hr, chain_mono t c⟩
  · obtain ⟨hk, r, hr, c⟩ := h; exact ⟨trivial, r, hr, chain_mono t c⟩
  · exact truthful_mono t h

theorem fastOK_mono {hist : List Ev} (t : List Ev) {p : Nat} {sl : Slot} (h : FastOK hist p sl) : FastOK (hist ++ t) p sl := by
  intro a ha
  obtain ⟨h1, h2, h3⟩ := h a ha
  refine ⟨h1, h2, ?_⟩
  split <;> simp_all only
  · exact chain_mono t h3
  · obtain ⟨r, hr, c⟩ := h3; exact ⟨r, hr, chain_mono t c⟩




theorem consume_fast (sl : Slot) (a : Ack) : (consume sl a).fast = none := by
  unfold consume; repeat' split
  all_goals rfl

theorem consume_kind (sl : Slot) (a : Ack) : (consume sl a).kind = sl.kind ∧ (consume sl a).n = sl.n := by
  unfold consume; repeat' split
  all_goals exact ⟨rfl, rfl⟩

theorem fastOK_of_none {H : List Ev} {p : Nat} {sl : Slot} (h : sl.fast = none) : FastOK H p sl := by
  intro a ha; rw [h] at ha; cases ha

theorem expects_waiting_main {k : Kind} {t : AckT} (h : expects k .waiting = some t) : mainAck k = some t := by
  cases k <;> simp [expects] at h <;> simp [mainAck, h]

theorem consume_waiting {H : List Ev} {p : Nat} {sl : Slot} {a : Ack} (hph : sl.phase = .waiting)
    (hex : expects sl.kind .waiting = some a.t) (hp : a.pid = p) (c : Chain [isReq sl.op p, isRx a] H) :
    PhaseOK H p (consume sl a) := by
  have hm := expects_waiting_main hex
  unfold consume
  split
  · rename_i hg
    split
    · rename_i ht
      have hk : sl.kind = .pub2 := by
        cases hk : sl.kind <;> simp [expects, hk, ht] at hex <;> rfl
      split
      · rename_i hall
        simp only [PhaseOK]
        exact ⟨hk, a, ⟨ht, hp, hg, hall⟩, c⟩
      · rename_i hall
        simp only [PhaseOK]
        exact Or.inl ⟨a, c, hp, hg, rfl, Or.inr ⟨hk, ht, by simpa using hall, rfl⟩⟩
    · rename_i ht
      simp only [PhaseOK]
      refine Or.inl ⟨a, c, hp, hg, rfl, Or.inl ⟨hm, ?_, rfl⟩⟩
      intro hk; rw [hk] at hm; simp [mainAck] at hm; exact ht hm.symm
  · simp only [hph, PhaseOK]

theorem consume_relWaiting {H : List Ev} {p : Nat} {sl : Slot} {a r : Ack} (hph : sl.phase = .relWaiting) (hk : sl.kind = .pub2)
    (hex : expects sl.kind .relWaiting = some a.t) (hp : a.pid = p) (hr : okRec p sl.n r)
    (c : Chain [isReq sl.op p, isRx r, isRel p, isRx a] H) :
    PhaseOK H p (consume sl a) := by
  have ht : a.t = .pubcomp := by rw [hk] at hex; simp [expects] at hex; exact hex.symm
  unfold consume
  split
  · rename_i hg
    simp only [ht, PhaseOK]
    exact Or.inr ⟨hk, r, a, hr, c, ht, hp, hg, rfl, rfl⟩
  · simp only [hph, PhaseOK]
    exact ⟨hk, r, hr, chain_prefix (Ps := [isReq sl.op p, isRx r]) (Qs := [isRel p, isRx a]) c⟩




theorem truth_keep {hist : List Ev} {s s' : S} (e : Ev) (I : TruthInv hist s) (hs : s'.slot = s.slot) : TruthInv (hist ++ [e]) s' := by
  intro p sl h; rw [hs] at h
  exact ⟨phaseOK_mono [e] (I p sl h).1, fastOK_mono [e] (I p sl h).2⟩

theorem truth_upd {hist : List Ev} {s s' : S} (e : Ev) (I : TruthInv hist s) {p : Nat} {o : Option Slot}
    (hs : s'.slot = upd s.slot p o) (hok : ∀ sl', o = some sl' → PhaseOK (hist ++ [e]) p sl' ∧ FastOK (hist ++ [e]) p sl') :
    TruthInv (hist ++ [e]) s' := by
  intro q sl h; rw [hs] at h; simp only [upd] at h
  by_cases hq : q = p
  · subst hq; simp at h; exact hok sl h
  · simp [hq] at h; exact ⟨phaseOK_mono [e] (I q sl h).1, fastOK_mono [e] (I q sl h).2⟩

theorem truth_map {hist : List Ev} {s s' : S} (e : Ev) (I : TruthInv hist s) {f : Slot → Slot}
    (hs : s'.slot = fun p => (s.slot p).map f)
    (hok : ∀ p sl, PhaseOK hist p sl → FastOK hist p sl → PhaseOK (hist ++ [e]) p (f sl) ∧ FastOK (hist ++ [e]) p (f sl)) :
    TruthInv (hist ++ [e]) s' := by
  intro q sl h; rw [hs] at h; simp only [Option.map_eq_some_iff] at h
  obtain ⟨sl0, h0, rfl⟩ := h
  exact hok q sl0 (I q sl0 h0).1 (I q sl0 h0).2

theorem request_truth {hist : List Ev} {s s' : S} {op pid : Nat} {k : Kind} {dup : Bool} {body : Nat} (pk : Out)
    (hpk : pk.req = some (op, pid)) (I : TruthInv hist s) (h : request s op pid k dup body = some s') :
    TruthInv (hist ++ [.pk pk]) s' := by
  have hreq : isReq op pid (.pk pk) := ⟨pk, rfl, hpk⟩
  obtain ⟨_, _, n, _, hc | ⟨sl, hs, hop, _, _, _, rfl⟩⟩ := request_spec h
  · obtain ⟨_, _, _, rfl⟩ := hc
    refine truth_upd _ I rfl ?_
    intro sl' hsl; simp only [Option.some.injEq] at hsl; subst hsl
    exact ⟨by simp only [PhaseOK]; exact chain_one_snoc hreq, fastOK_of_none rfl⟩
  · refine truth_upd _ I rfl ?_
    intro sl' hsl; simp only [Option.some.injEq] at hsl; subst hsl
    exact ⟨by simp only [PhaseOK]; rw [hop]; exact chain_one_snoc hreq, fastOK_of_none rfl⟩

theorem onWrOk_truth {hist : List Ev} (e : Ev) {p : Nat} {sl : Slot} (h1 : PhaseOK hist p sl) (h2 : FastOK hist p sl) :
    PhaseOK (hist ++ [e]) p sl.onWrOk ∧ FastOK (hist ++ [e]) p sl.onWrOk := by
  unfold Slot.onWrOk
  split
  · rename_i hph
    split
    · rename_i a ha
      obtain ⟨hex, hp, hc⟩ := h2 a ha
      simp only [hph] at hc hex
      refine ⟨phaseOK_mono [e] (consume_waiting (sl := { sl with phase := .waiting, okBefore := true }) rfl ?_ hp hc), fastOK_of_none (consume_fast _ _)⟩
      cases hk : sl.kind <;> simp [expects, hk] at hex ⊢ <;> exact hex
    · rename_i ha
      simp only [PhaseOK, hph] at h1 ⊢
      exact ⟨chain_mono [e] h1, fastOK_of_none ha⟩
  · rename_i hph
    simp only [PhaseOK, hph] at h1
    obtain ⟨hk, r, hr, c⟩ := h1
    split
    · rename_i a ha
      obtain ⟨hex, hp, hc⟩ := h2 a ha
      simp only [hph] at hc hex
      obtain ⟨r', hr', c'⟩ := hc
      refine ⟨phaseOK_mono [e] (consume_relWaiting (sl := { sl with phase := .relWaiting }) rfl hk ?_ hp hr' c'), fastOK_of_none (consume_fast _ _)⟩
      rw [hk] at hex ⊢; simp [expects] at hex ⊢; exact hex
    · rename_i ha
      simp only [PhaseOK]
      exact ⟨⟨hk, r, hr, chain_mono [e] c⟩, fastOK_of_none ha⟩
  · exact ⟨phaseOK_mono [e] h1, fastOK_mono [e] h2⟩

theorem onWrFail_truth {hist : List Ev} (e : Ev) {p : Nat} {sl : Slot} (h1 : PhaseOK hist p sl) (h2 : FastOK hist p sl) :
    PhaseOK (hist ++ [e]) p sl.onWrFail ∧ FastOK (hist ++ [e]) p sl.onWrFail := by
  unfold Slot.onWrFail
  split
  · exact ⟨by simp only [PhaseOK], fastOK_of_none rfl⟩
  · rename_i hph
    simp only [PhaseOK, hph] at h1
    obtain ⟨hk, r, hr, c⟩ := h1
    refine ⟨?_, fastOK_of_none rfl⟩
    simp only [PhaseOK]
    exact ⟨hk, r, hr, chain_mono [e] (chain_prefix (Ps := [isReq sl.op p, isRx r]) (Qs := [isRel p]) c)⟩
  · exact ⟨phaseOK_mono [e] h1, fastOK_mono [e] h2⟩

theorem onConnUp_truth {hist : List Ev} (e : Ev) {p : Nat} {sl : Slot} (h1 : PhaseOK hist p sl) (h2 : FastOK hist p sl) :
    PhaseOK (hist ++ [e]) p sl.onConnUp ∧ FastOK (hist ++ [e]) p sl.onConnUp := by
  unfold Slot.onConnUp
  split
  · rename_i hph
    refine ⟨by simp only [PhaseOK], ?_⟩
    intro a ha; obtain ⟨_, _, h3⟩ := h2 a ha; simp only [hph] at h3
  · rename_i hph
    simp only [PhaseOK, hph] at h1
    obtain ⟨hk, r, hr, c⟩ := h1
    refine ⟨?_, ?_⟩
    · simp only [PhaseOK]
      exact ⟨hk, r, hr, chain_mono [e] (chain_prefix (Ps := [isReq sl.op p, isRx r]) (Qs := [isRel p]) c)⟩
    · intro a ha; obtain ⟨_, _, h3⟩ := h2 a ha; simp only [hph] at h3
  · exact ⟨phaseOK_mono [e] h1, fastOK_mono [e] h2⟩

theorem onRx_truth {hist : List Ev} {a : Ack} {sl : Slot} (h1 : PhaseOK hist a.pid sl) (h2 : FastOK hist a.pid sl) :
    PhaseOK (hist ++ [.rx a]) a.pid (sl.onRx a) ∧ FastOK (hist ++ [.rx a]) a.pid (sl.onRx a) := by
  have hrx : isRx a (.rx a) := rfl
  unfold Slot.onRx
  split
  · rename_i hex
    split
    · rename_i hph
      simp only [PhaseOK, hph] at h1
      rw [hph] at hex
      exact ⟨consume_waiting hph hex rfl (chain_snoc (Ps := [isReq sl.op a.pid]) h1 hrx), fastOK_of_none (consume_fast _ _)⟩
    · rename_i hph
      simp only [PhaseOK, hph] at h1
      obtain ⟨hk, r, hr, c⟩ := h1
      rw [hph] at hex
      exact ⟨consume_relWaiting hph hk hex rfl hr (chain_snoc (Ps := [isReq sl.op a.pid, isRx r, isRel a.pid]) c hrx), fastOK_of_none (consume_fast _ _)⟩
    · rename_i hnw hnr
      split
      · rename_i hnone
        refine ⟨phaseOK_mono _ h1, ?_⟩
        intro a' ha'
        simp only [Option.some.injEq] at ha'; subst ha'
        refine ⟨hex, rfl, ?_⟩
        -- the phase is writing or relWriting (the only other phases in which something is expected)
        cases hph : sl.phase with
        | writing =>
          simp only [PhaseOK, hph] at h1 ⊢
          exact chain_snoc (Ps := [isReq sl.op a.pid]) h1 hrx
        | relWriting =>
          simp only [PhaseOK, hph] at h1 ⊢
          obtain ⟨hk, r, hr, c⟩ := h1
          exact ⟨r, hr, chain_snoc (Ps := [isReq sl.op a.pid, isRx r, isRel a.pid]) c hrx⟩
        | waiting => exact absurd hph (hnw)
        | relWaiting => exact absurd hph (hnr)
        | idle => rw [hph] at hex; cases hk : sl.kind <;> simp [expects, hk] at hex
        | relIdle => rw [hph] at hex; cases hk : sl.kind <;> simp [expects, hk] at hex
        | finished _ _ => rw [hph] at hex; cases hk : sl.kind <;> simp [expects, hk] at hex
      · exact ⟨phaseOK_mono _ h1, fastOK_mono _ h2⟩
  · exact ⟨phaseOK_mono _ h1, fastOK_mono _ h2⟩




theorem truthInv_init : TruthInv [] init := by intro p sl h; simp [init] at h

theorem truthInv_step (hist : List Ev) (s : S) (e : Ev) (s' : S) (I : TruthInv hist s) (h : step s e = some s') :
    TruthInv (hist ++ [e]) s' := by
  cases e with
  | init op k n =>
    simp only [step] at h; split at h
    · simp at h
    · simp only [Option.some.injEq] at h; subst h; exact truth_keep _ I rfl
  | connUp rm =>
    simp only [step, Option.some.injEq] at h; subst h
    exact truth_map _ I rfl (fun p sl h1 h2 => onConnUp_truth _ h1 h2)
  | connDown => simp only [step, Option.some.injEq] at h; subst h; exact truth_keep _ I rfl
  | wr =>
    simp only [step] at h; split at h
    · simp at h
    · simp only [Option.some.injEq] at h; subst h; exact truth_keep _ I rfl
  | pk p =>
    simp only [step] at h; split at h
    · rcases stepPk_spec h with ⟨op, q, pid, dup, body, k, rfl, _, s1, hr, ha⟩ | ⟨op, pid, body, rfl, hr⟩ | ⟨op, pid, body, rfl, hr⟩ | ⟨pid, sl, rfl, hs, hk, hph, rfl⟩ | ⟨rfl, rfl⟩
      · have I1 := request_truth (.publish op q pid dup body) rfl I hr
        intro p sl hsl; rw [(account_frame ha).1] at hsl; exact I1 p sl hsl
      · exact request_truth (.subscribe op pid body) rfl I hr
      · exact request_truth (.unsubscribe op pid body) rfl I hr
      · refine truth_upd _ I rfl ?_
        intro sl' hsl; simp only [Option.some.injEq] at hsl; subst hsl
        refine ⟨?_, fastOK_of_none rfl⟩
        have h1 := (I pid sl hs).1
        have hrel : isRel pid (.pk (.pubrel pid)) := rfl
        simp only [PhaseOK, hph] at h1 ⊢
        obtain ⟨_, r, hr, c⟩ := h1
        exact ⟨hk, r, hr, chain_snoc (Ps := [isReq sl.op pid, isRx r]) c hrel⟩
      · exact truth_keep _ I rfl
    · simp at h
  | wrOk =>
    simp only [step] at h; split at h
    · simp only [Option.some.injEq] at h; subst h
      exact truth_map _ I rfl (fun p sl h1 h2 => onWrOk_truth _ h1 h2)
    · simp at h
  | wrFail =>
    simp only [step] at h; split at h
    · simp only [Option.some.injEq] at h; subst h
      exact truth_map _ I rfl (fun p sl h1 h2 => onWrFail_truth _ h1 h2)
    · simp at h
  | rx a =>
    simp only [step, Option.some.injEq] at h; subst h
    refine truth_upd (p := a.pid) (o := (s.slot a.pid).map (Slot.onRx · a)) _ I ?_ ?_
    · repeat' split
      all_goals rfl
    · intro sl' hsl
      simp only [Option.map_eq_some_iff] at hsl
      obtain ⟨sl0, h0, rfl⟩ := hsl
      exact onRx_truth (I a.pid sl0 h0).1 (I a.pid sl0 h0).2
  | doneOk op rcs props =>
    simp only [step] at h
    repeat' split at h
    all_goals first | (simp at h; done) | skip
    simp only [Option.some.injEq] at h; subst h
    exact truth_upd _ I rfl (by intro sl' hsl; cases hsl)
  | doneOther op =>
    simp only [step] at h
    repeat' split at h
    all_goals first | (simp at h; done) | skip
    all_goals simp only [Option.some.injEq] at h; subst h
    all_goals first | exact truth_keep _ I rfl | exact truth_upd _ I rfl (by intro sl' hsl; cases hsl)
  | quiescent =>
    simp only [step] at h; split at h
    · simp only [Option.some.injEq] at h; subst h; exact truth_keep _ I rfl
    · simp at h

  | cancelAll => simp only [step, Option.some.injEq] at h; subst h; exact truth_keep _ I rfl
  | restart => simp only [step, Option.some.injEq] at h; subst h; exact truth_keep _ I rfl
theorem truthInv_reach {tr : List Ev} {s : S} (h : run init tr = some s) : TruthInv tr s :=
  inv_reach TruthInv truthInv_init truthInv_step tr s h

/-! ### kinds -/
/-- the slot of an exchange carries the kind and topic count of its API call -/
structure KindInv (hist : List Ev) (s : S) : Prop where
  known_iff : ∀ op k n, s.known op = some (k, n) ↔ Ev.init op k n ∈ hist
  slot_kind : ∀ p sl, s.slot p = some sl → s.known sl.op = some (sl.kind, sl.n)


theorem request_frame {s s' : S} {op pid : Nat} {k : Kind} {dup : Bool} {body : Nat} (h : request s op pid k dup body = some s') :
    s'.known = s.known ∧ s'.isDone = s.isDone ∧ s'.writing = s.writing ∧ s'.connected = s.connected ∧ s'.limit = s.limit ∧
    s'.quota = s.quota ∧ s'.holders = s.holders ∧ s'.wire = s.wire := by
  obtain ⟨_, _, n, _, hc | ⟨sl, _, _, _, _, _, rfl⟩⟩ := request_spec h
  · obtain ⟨_, _, _, rfl⟩ := hc; simp
  · simp

theorem kindInv_init : KindInv [] init := ⟨by intro op k n; simp [init], by intro p sl h; simp [init] at h⟩

theorem kind_keep {hist : List Ev} {s s' : S} {e : Ev} (I : KindInv hist s) (hk : s'.known = s.known)
    (hne : ∀ op k n, e ≠ .init op k n) (hs : ∀ p sl', s'.slot p = some sl' → ∃ sl, s.slot p = some sl ∧ sl'.op = sl.op ∧ sl'.kind = sl.kind ∧ sl'.n = sl.n) :
    KindInv (hist ++ [e]) s' := by
  refine ⟨?_, ?_⟩
  · intro op k n; rw [hk, I.known_iff]; simp only [List.mem_append, List.mem_singleton]
    constructor
    · intro h; exact Or.inl h
    · rintro (h | h)
      · exact h
      · exact absurd h.symm (hne op k n)
  · intro p sl' h
    obtain ⟨sl, h0, h1, h2, h3⟩ := hs p sl' h
    rw [hk, h1, h2, h3]; exact I.slot_kind p sl h0

theorem slots_upd_same {s : S} {p : Nat} {sl sl1 : Slot} (hs : s.slot p = some sl) (h1 : sl1.op = sl.op) (h2 : sl1.kind = sl.kind) (h3 : sl1.n = sl.n) :
    ∀ q sl', upd s.slot p (some sl1) q = some sl' → ∃ sl0, s.slot q = some sl0 ∧ sl'.op = sl0.op ∧ sl'.kind = sl0.kind ∧ sl'.n = sl0.n := by
  intro q sl' h; simp only [upd] at h
  by_cases hq : q = p
  · subst hq; simp at h; subst h; exact ⟨sl, hs, h1, h2, h3⟩
  · simp [hq] at h; exact ⟨sl', h, rfl, rfl, rfl⟩

theorem slots_upd_none {s : S} {p : Nat} :
    ∀ q sl', upd s.slot p none q = some sl' → ∃ sl0, s.slot q = some sl0 ∧ sl'.op = sl0.op ∧ sl'.kind = sl0.kind ∧ sl'.n = sl0.n := by
  intro q sl' h; simp only [upd] at h
  by_cases hq : q = p
  · subst hq; simp at h
  · simp [hq] at h; exact ⟨sl', h, rfl, rfl, rfl⟩

theorem slots_map {s : S} {f : Slot → Slot} (hf : ∀ sl, (f sl).op = sl.op ∧ (f sl).kind = sl.kind ∧ (f sl).n = sl.n) :
    ∀ q sl', (s.slot q).map f = some sl' → ∃ sl0, s.slot q = some sl0 ∧ sl'.op = sl0.op ∧ sl'.kind = sl0.kind ∧ sl'.n = sl0.n := by
  intro q sl' h; simp only [Option.map_eq_some_iff] at h
  obtain ⟨sl0, h0, rfl⟩ := h
  exact ⟨sl0, h0, (hf sl0).1, (hf sl0).2.1, (hf sl0).2.2⟩

theorem onWrOk_kind (sl : Slot) : sl.onWrOk.op = sl.op ∧ sl.onWrOk.kind = sl.kind ∧ sl.onWrOk.n = sl.n := by
  refine ⟨onWrOk_op sl, ?_⟩
  unfold Slot.onWrOk; repeat' split
  all_goals first | exact ⟨rfl, rfl⟩ | exact consume_kind _ _

theorem onWrFail_kind (sl : Slot) : sl.onWrFail.op = sl.op ∧ sl.onWrFail.kind = sl.kind ∧ sl.onWrFail.n = sl.n := by
  unfold Slot.onWrFail; repeat' split
  all_goals exact ⟨rfl, rfl, rfl⟩

theorem onConnUp_kind (sl : Slot) : sl.onConnUp.op = sl.op ∧ sl.onConnUp.kind = sl.kind ∧ sl.onConnUp.n = sl.n := by
  unfold Slot.onConnUp; repeat' split
  all_goals exact ⟨rfl, rfl, rfl⟩

theorem onRx_kind (sl : Slot) (a : Ack) : (sl.onRx a).op = sl.op ∧ (sl.onRx a).kind = sl.kind ∧ (sl.onRx a).n = sl.n := by
  refine ⟨onRx_op sl a, ?_⟩
  unfold Slot.onRx; repeat' split
  all_goals first | exact ⟨rfl, rfl⟩ | exact consume_kind _ _

theorem request_kind {hist : List Ev} {s s' : S} {op pid : Nat} {k : Kind} {dup : Bool} {body : Nat} (pk : Out)
    (I : KindInv hist s) (h : request s op pid k dup body = some s') : KindInv (hist ++ [.pk pk]) s' := by
  obtain ⟨_, _, n, hkn, hc | ⟨sl, hs, hop, _, _, _, rfl⟩⟩ := request_spec h
  · obtain ⟨_, _, _, rfl⟩ := hc
    refine ⟨?_, ?_⟩
    · intro op' k' n'; simp only []; rw [I.known_iff]; simp
    · intro q sl' hq; simp only [upd] at hq ⊢
      by_cases hqq : q = pid
      · subst hqq; simp at hq; subst hq; exact hkn
      · simp [hqq] at hq; exact I.slot_kind q sl' hq
  · exact kind_keep I rfl (by intro _ _ _ h; cases h) (slots_upd_same hs rfl rfl rfl)

theorem kindInv_step (hist : List Ev) (s : S) (e : Ev) (s' : S) (I : KindInv hist s) (h : step s e = some s') :
    KindInv (hist ++ [e]) s' := by
  cases e with
  | init op k n =>
    simp only [step] at h; split at h
    · simp at h
    · rename_i hn
      simp only [Option.some.injEq] at h; subst h
      simp only [Option.isSome_iff_exists, not_exists] at hn
      refine ⟨?_, ?_⟩
      · intro op' k' n'; simp only [upd, List.mem_append, List.mem_singleton, Ev.init.injEq]
        by_cases hop : op' = op
        · subst hop; simp only [if_true, Option.some.injEq, Prod.mk.injEq]
          constructor
          · rintro ⟨rfl, rfl⟩; simp
          · rintro (h1 | h1)
            · exact absurd ((I.known_iff op' k' n').2 h1) (hn _)
            · simp at h1; exact ⟨h1.1.symm, h1.2.symm⟩
        · simp only [hop, if_false, false_and, or_false]; exact I.known_iff op' k' n'
      · intro p sl hsl; simp only [upd]
        have := I.slot_kind p sl hsl
        by_cases hop : sl.op = op
        · rw [hop] at this; exact absurd this (hn _)
        · simp [hop, this]
  | connUp rm => simp only [step, Option.some.injEq] at h; subst h; exact kind_keep I rfl (by intro _ _ _ h; cases h) (slots_map onConnUp_kind)
  | connDown => simp only [step, Option.some.injEq] at h; subst h; exact kind_keep I rfl (by intro _ _ _ h; cases h) (fun p sl h => ⟨sl, h, rfl, rfl, rfl⟩)
  | wr =>
    simp only [step] at h; split at h
    · simp at h
    · simp only [Option.some.injEq] at h; subst h; exact kind_keep I rfl (by intro _ _ _ h; cases h) (fun p sl h => ⟨sl, h, rfl, rfl, rfl⟩)
  | pk p =>
    simp only [step] at h; split at h
    · rcases stepPk_spec h with ⟨op, q, pid, dup, body, k, rfl, _, s1, hr, ha⟩ | ⟨op, pid, body, rfl, hr⟩ | ⟨op, pid, body, rfl, hr⟩ | ⟨pid, sl, rfl, hs, hk, hph, rfl⟩ | ⟨rfl, rfl⟩
      · have I1 := request_kind (.publish op q pid dup body) I hr
        obtain ⟨f1, _, _, f4, _⟩ := account_frame ha
        exact ⟨by intro a b c; rw [f4]; exact I1.known_iff a b c, by intro a b c; rw [f1] at c; rw [f4]; exact I1.slot_kind a b c⟩
      · exact request_kind _ I hr
      · exact request_kind _ I hr
      · exact kind_keep I rfl (by intro _ _ _ h; cases h) (slots_upd_same hs rfl rfl rfl)
      · exact kind_keep I rfl (by intro _ _ _ h; cases h) (fun p sl h => ⟨sl, h, rfl, rfl, rfl⟩)
    · simp at h
  | wrOk =>
    simp only [step] at h; split at h
    · simp only [Option.some.injEq] at h; subst h
      exact kind_keep I rfl (by intro _ _ _ h; cases h) (slots_map onWrOk_kind)
    · simp at h
  | wrFail =>
    simp only [step] at h; split at h
    · simp only [Option.some.injEq] at h; subst h
      exact kind_keep I rfl (by intro _ _ _ h; cases h) (slots_map onWrFail_kind)
    · simp at h
  | rx a =>
    simp only [step, Option.some.injEq] at h; subst h
    refine kind_keep I ?_ (by intro _ _ _ h; cases h) ?_
    · repeat' split
      all_goals rfl
    · intro q sl' hq
      have : (upd s.slot a.pid ((s.slot a.pid).map (Slot.onRx · a))) q = some sl' := by
        revert hq; repeat' split
        all_goals exact id
      simp only [upd] at this
      by_cases hqq : q = a.pid
      · subst hqq; simp only [if_true] at this
        exact slots_map (s := s) (f := (Slot.onRx · a)) (fun sl => onRx_kind sl a) _ sl' this
      · simp [hqq] at this; exact ⟨sl', this, rfl, rfl, rfl⟩
  | doneOk op rcs props =>
    simp only [step] at h
    repeat' split at h
    all_goals first | (simp at h; done) | skip
    simp only [Option.some.injEq] at h; subst h
    exact kind_keep I rfl (by intro _ _ _ h; cases h) slots_upd_none
  | doneOther op =>
    simp only [step] at h
    repeat' split at h
    all_goals first | (simp at h; done) | skip
    all_goals simp only [Option.some.injEq] at h; subst h
    all_goals first
      | exact kind_keep I rfl (by intro _ _ _ h; cases h) slots_upd_none
      | exact kind_keep I rfl (by intro _ _ _ h; cases h) (fun p sl h => ⟨sl, h, rfl, rfl, rfl⟩)
  | quiescent =>
    simp only [step] at h; split at h
    · simp only [Option.some.injEq] at h; subst h; exact kind_keep I rfl (by intro _ _ _ h; cases h) (fun p sl h => ⟨sl, h, rfl, rfl, rfl⟩)
    · simp at h

  | cancelAll => simp only [step, Option.some.injEq] at h; subst h; exact kind_keep I rfl (by intro _ _ _ h; cases h) (fun p sl h => ⟨sl, h, rfl, rfl, rfl⟩)
  | restart => simp only [step, Option.some.injEq] at h; subst h; exact kind_keep I rfl (by intro _ _ _ h; cases h) (fun p sl h => ⟨sl, h, rfl, rfl, rfl⟩)
theorem kindInv_reach {tr : List Ev} {s : S} (h : run init tr = some s) : KindInv tr s :=
  inv_reach KindInv kindInv_init kindInv_step tr s h

/-- **C01 / C14 on accepted event lists**: a successful completion rests on the written request and the broker's acknowledgement -/
theorem success_truthful {pre post : List Ev} {op : Nat} {rcs : List Nat} {props : Nat}
    (hacc : accepts (pre ++ .doneOk op rcs props :: post) = true) :
    ∃ p k n, Ev.init op k n ∈ pre ∧ p ≠ 0 ∧ Truthful pre op p k n rcs props := by
  obtain ⟨s, hr⟩ := (accepts_iff _).1 hacc
  obtain ⟨s1, hr1, hr2⟩ := run_prefix hr
  simp only [run] at hr2
  cases hs : step s1 (.doneOk op rcs props) with
  | none => simp [hs] at hr2
  | some s2 =>
    simp only [step] at hs
    repeat' split at hs
    all_goals first | (simp at hs; done) | skip
    rename_i _ p hp _ sl hsl hc
    simp only [ne_eq, Bool.or_eq_true, decide_eq_true_eq, not_or, Decidable.not_not] at hc
    have hT := (truthInv_reach hr1 p sl hsl).1
    have hK := kindInv_reach hr1
    have hI := idInv_reach hr1
    simp only [PhaseOK, hc.2] at hT
    rw [hc.1] at hT
    refine ⟨p, sl.kind, sl.n, ?_, ?_, hT⟩
    · have := hK.slot_kind p sl hsl; rw [hc.1] at this; exact (hK.known_iff _ _ _).1 this
    · exact (hI.slotA p op (by simp [owner, hsl, hc.1])).1


/-! ### every operation completes (C05, drain) -/


/-- every initiated operation is in the list of operations -/
def OpsInv (hist : List Ev) (s : S) : Prop := ∀ op k n, Ev.init op k n ∈ hist → op ∈ s.ops

theorem opsInv_step (hist : List Ev) (s : S) (e : Ev) (s' : S) (I : OpsInv hist s) (h : step s e = some s') : OpsInv (hist ++ [e]) s' := by
  have hmono : (∀ op, op ∈ s.ops → op ∈ s'.ops) ∧ (∀ op k n, e = .init op k n → op ∈ s'.ops) := by
    cases e with
    | init op k n =>
      simp only [step] at h; split at h
      · simp at h
      · simp only [Option.some.injEq] at h; subst h
        exact ⟨fun o ho => List.mem_cons_of_mem _ ho, by intro o k' n' he; cases he; simp⟩
    | pk p =>
      simp only [step] at h; split at h
      · have : s'.ops = s.ops := by
          rcases stepPk_spec h with ⟨op, q, pid, dup, body, k, rfl, _, s1, hr, ha⟩ | ⟨op, pid, body, rfl, hr⟩ | ⟨op, pid, body, rfl, hr⟩ | ⟨pid, sl, rfl, hs, hk, hph, rfl⟩ | ⟨rfl, rfl⟩
          · have h1 : s1.ops = s.ops := by
              obtain ⟨_, _, n, _, hc | ⟨sl, _, _, _, _, _, rfl⟩⟩ := request_spec hr
              · obtain ⟨_, _, _, rfl⟩ := hc; rfl
              · rfl
            rcases account_spec ha with ⟨_, rfl⟩ | ⟨_, _, _, rfl⟩ | ⟨_, _, _, _, rfl⟩ <;> exact h1
          · obtain ⟨_, _, n, _, hc | ⟨sl, _, _, _, _, _, rfl⟩⟩ := request_spec hr
            · obtain ⟨_, _, _, rfl⟩ := hc; rfl
            · rfl
          · obtain ⟨_, _, n, _, hc | ⟨sl, _, _, _, _, _, rfl⟩⟩ := request_spec hr
            · obtain ⟨_, _, _, rfl⟩ := hc; rfl
            · rfl
          · rfl
          · rfl
        exact ⟨fun o ho => this ▸ ho, by intro o k n he; cases he⟩
      · simp at h
    | connUp rm => simp only [step, Option.some.injEq] at h; subst h; exact ⟨fun _ ho => ho, by intro o k n he; cases he⟩
    | connDown => simp only [step, Option.some.injEq] at h; subst h; exact ⟨fun _ ho => ho, by intro o k n he; cases he⟩
    | rx a => simp only [step, Option.some.injEq] at h; subst h; exact ⟨fun _ ho => ho, by intro o k n he; cases he⟩
    | wr =>
      simp only [step] at h; split at h
      · simp at h
      · simp only [Option.some.injEq] at h; subst h; exact ⟨fun _ ho => ho, by intro o k n he; cases he⟩
    | wrOk =>
      simp only [step] at h; split at h
      · simp only [Option.some.injEq] at h; subst h; exact ⟨fun _ ho => ho, by intro o k n he; cases he⟩
      · simp at h
    | wrFail =>
      simp only [step] at h; split at h
      · simp only [Option.some.injEq] at h; subst h; exact ⟨fun _ ho => ho, by intro o k n he; cases he⟩
      · simp at h
    | quiescent =>
      simp only [step] at h; split at h
      · simp only [Option.some.injEq] at h; subst h; exact ⟨fun _ ho => ho, by intro o k n he; cases he⟩
      · simp at h
    | cancelAll => simp only [step, Option.some.injEq] at h; subst h; exact ⟨fun _ ho => ho, by intro o k n he; cases he⟩
    | restart => simp only [step, Option.some.injEq] at h; subst h; exact ⟨fun _ ho => ho, by intro o k n he; cases he⟩
    | doneOk op rcs props =>
      simp only [step] at h
      repeat' split at h
      all_goals first | (simp at h; done) | skip
      simp only [Option.some.injEq] at h; subst h; exact ⟨fun _ ho => ho, by intro o k n he; cases he⟩
    | doneOther op =>
      simp only [step] at h
      repeat' split at h
      all_goals first | (simp at h; done) | skip
      all_goals simp only [Option.some.injEq] at h; subst h
      all_goals exact ⟨fun _ ho => ho, by intro o k n he; cases he⟩
  intro op k n hm
  simp only [List.mem_append, List.mem_singleton] at hm
  rcases hm with hm | hm
  · exact hmono.1 op (I op k n hm)
  · exact hmono.2 op k n hm.symm

theorem opsInv_reach {tr : List Ev} {s : S} (h : run init tr = some s) : OpsInv tr s :=
  inv_reach OpsInv (by intro op k n h; simp at h) opsInv_step tr s h

/-- **C05 (drain) on accepted event lists**: when the client has been cancelled (or a disconnect has finished) and the execution context has
run out of work — the `quiescent` event — every operation initiated before has completed -/
theorem all_completed_at_quiescence {pre post : List Ev} (hacc : accepts (pre ++ .quiescent :: post) = true) {op : Nat} {k : Kind} {n : Nat}
    (hi : Ev.init op k n ∈ pre) : doneIn pre op := by
  obtain ⟨s, hr⟩ := (accepts_iff _).1 hacc
  obtain ⟨s1, hr1, hr2⟩ := run_prefix hr
  have hops := opsInv_reach hr1 op k n hi
  have II := idInv_reach hr1
  simp only [run] at hr2
  cases hs : step s1 .quiescent with
  | none => simp [hs] at hr2
  | some s2 =>
    simp only [step] at hs; split at hs
    · rename_i hall
      rw [List.all_eq_true] at hall
      exact (II.done_iff op).1 (hall op hops)
    · simp at hs


end Mqtt5V.Proofs.Trace
