import Mqtt5V.Proofs.TraceTruth
/-! QoS 2 / DUP invariants of the composed outbound model (C03): no PUBLISH after the PUBREL, DUP = 0 on the first transmission,
DUP = 1 after a successful write; and the general lemma `slot_step` (how one step may change a slot). -/
namespace Mqtt5V.Proofs.Trace
open Mqtt5V.Model.Trace


/-- an invariant whose preservation needs another, already established, invariant -/
theorem inv_reach2 (I J : List Ev → S → Prop) (hI0 : I [] init) (hJ0 : J [] init)
    (hI : ∀ h s e s', I h s → step s e = some s' → I (h ++ [e]) s')
    (hJ : ∀ h s e s', I h s → J h s → step s e = some s' → J (h ++ [e]) s') :
    ∀ tr s, run init tr = some s → J tr s := by
  intro tr s hr
  exact (inv_reach (fun h s => I h s ∧ J h s) ⟨hI0, hJ0⟩
    (fun h s e s' hh hs => ⟨hI h s e s' hh.1 hs, hJ h s e s' hh.1 hh.2 hs⟩) tr s hr).2

def relPhase : Phase → Bool
  | .relIdle | .relWriting | .relWaiting | .finished _ _ => true
  | _ => false

/-- once the PUBREL of an exchange has been written, the exchange is past its PUBLISH stage for good -/
def RelInv (hist : List Ev) (s : S) : Prop :=
  ∀ op p, Chain [isReq op p, isRel p] hist → s.isDone op = true ∨ ∃ sl, s.slot p = some sl ∧ sl.op = op ∧ relPhase sl.phase = true

theorem chain2_snoc {P Q : Ev → Prop} {h : List Ev} {e : Ev} (c : Chain [P, Q] (h ++ [e])) : Chain [P, Q] h ∨ (Chain [P] h ∧ Q e) := by
  obtain ⟨h1, e1, h2, heq, hP, h3, e2, h4, heq2, hQ, _⟩ := c
  subst heq2
  -- h ++ [e] = h1 ++ e1 :: (h3 ++ e2 :: h4)
  rcases List.eq_nil_or_concat h4 with rfl | ⟨h4', x, rfl⟩
  · -- e2 is the last event
    have : h ++ [e] = (h1 ++ e1 :: h3) ++ [e2] := by simp [heq]
    obtain ⟨rfl, he⟩ := List.append_inj' this (by simp)
    simp only [List.cons.injEq, and_true] at he; subst he
    exact Or.inr ⟨⟨h1, e1, h3, rfl, hP, trivial⟩, hQ⟩
  · have : h ++ [e] = (h1 ++ e1 :: (h3 ++ e2 :: h4')) ++ [x] := by simp [heq]
    obtain ⟨rfl, _⟩ := List.append_inj' this (by simp)
    exact Or.inl ⟨h1, e1, h3 ++ e2 :: h4', rfl, hP, h3, e2, h4', rfl, hQ, trivial⟩

theorem consume_rel (sl : Slot) (a : Ack) (h : relPhase sl.phase = true) : relPhase (consume sl a).phase = true := by
  unfold consume; repeat' split
  all_goals first | rfl | (simp_all [relPhase])

theorem onWrOk_rel (sl : Slot) (h : relPhase sl.phase = true) : relPhase sl.onWrOk.phase = true := by
  unfold Slot.onWrOk; split
  · rename_i hp; simp [hp, relPhase] at h
  · split
    · exact consume_rel _ _ rfl
    · rfl
  · exact h

theorem onWrFail_rel (sl : Slot) (h : relPhase sl.phase = true) : relPhase sl.onWrFail.phase = true := by
  unfold Slot.onWrFail; split
  · rename_i hp; simp [hp, relPhase] at h
  · rfl
  · exact h

theorem onConnUp_rel (sl : Slot) (h : relPhase sl.phase = true) : relPhase sl.onConnUp.phase = true := by
  unfold Slot.onConnUp; split
  · rename_i hp; simp [hp, relPhase] at h
  · rfl
  · exact h

theorem onRx_rel (sl : Slot) (a : Ack) (h : relPhase sl.phase = true) : relPhase (sl.onRx a).phase = true := by
  unfold Slot.onRx; repeat' split
  all_goals first | exact h | exact consume_rel _ _ h


theorem relInv_init : RelInv [] init := by
  intro op p c; obtain ⟨h1, e, h2, heq, _⟩ := c; simp at heq

theorem rel_keep_upd {s : S} {p q : Nat} {op : Nat} {o : Option Slot}
    (h : ∃ sl, s.slot p = some sl ∧ sl.op = op ∧ relPhase sl.phase = true)
    (ho : q = p → ∃ sl', o = some sl' ∧ sl'.op = op ∧ relPhase sl'.phase = true) :
    ∃ sl, upd s.slot q o p = some sl ∧ sl.op = op ∧ relPhase sl.phase = true := by
  simp only [upd]
  by_cases hq : p = q
  · subst hq; simp; exact ho rfl
  · simp [hq]; exact h

theorem request_rel {s s' : S} {op pid : Nat} {k : Kind} {dup : Bool} {body : Nat}
    (h : request s op pid k dup body = some s') {op' p : Nat}
    (hr : ∃ sl, s.slot p = some sl ∧ sl.op = op' ∧ relPhase sl.phase = true) :
    ∃ sl, s'.slot p = some sl ∧ sl.op = op' ∧ relPhase sl.phase = true := by
  obtain ⟨sl0, h0, h1, h2⟩ := hr
  obtain ⟨_, _, n, _, hc | ⟨sl, hs, _, _, _, hph, rfl⟩⟩ := request_spec h
  · obtain ⟨hfree, _, _, rfl⟩ := hc
    refine rel_keep_upd ⟨sl0, h0, h1, h2⟩ ?_
    intro hq; subst hq; rw [h0] at hfree; cases hfree
  · refine rel_keep_upd ⟨sl0, h0, h1, h2⟩ ?_
    intro hq; subst hq; rw [h0] at hs; cases hs
    simp [hph, relPhase] at h2

theorem relInv_step (hist : List Ev) (s : S) (e : Ev) (s' : S) (II : IdInv hist s) (I : RelInv hist s) (h : step s e = some s') :
    RelInv (hist ++ [e]) s' := by
  intro op p c
  rcases chain2_snoc c with c0 | ⟨c1, hrel⟩
  · -- the PUBREL was written earlier: the exchange stays past its PUBLISH stage
    have hown := step_owner h
    rcases I op p c0 with hd | hr
    · left
      cases hown with
      | same _ hd' _ _ _ => rw [hd']; exact hd
      | claim _ _ _ _ _ _ _ _ _ _ hd' _ => rw [hd']; exact hd
      | done op' _ _ _ _ _ hd' _ => rw [hd']; simp only [upd]; split <;> simp [hd]
    · cases e with
      | init op' k n =>
        simp only [step] at h; split at h
        · simp at h
        · simp only [Option.some.injEq] at h; subst h; exact Or.inr hr
      | connUp rm =>
        simp only [step, Option.some.injEq] at h; subst h
        obtain ⟨sl0, h0, h1, h2⟩ := hr
        exact Or.inr ⟨sl0.onConnUp, by simp [h0], by rw [onConnUp_op, h1], onConnUp_rel sl0 h2⟩
      | connDown => simp only [step, Option.some.injEq] at h; subst h; exact Or.inr hr
      | wr =>
        simp only [step] at h; split at h
        · simp at h
        · simp only [Option.some.injEq] at h; subst h; exact Or.inr hr
      | pk pkt =>
        simp only [step] at h; split at h
        · rcases stepPk_spec h with ⟨op', q, pid, dup, body, k, rfl, _, s1, hrq, ha⟩ | ⟨op', pid, body, rfl, hrq⟩ | ⟨op', pid, body, rfl, hrq⟩ | ⟨pid, sl, rfl, hs, hk, hph, rfl⟩ | ⟨rfl, rfl⟩
          · right; rw [(account_frame ha).1]; exact request_rel hrq hr
          · right; exact request_rel hrq hr
          · right; exact request_rel hrq hr
          · right
            refine rel_keep_upd hr ?_
            intro hq; subst hq
            obtain ⟨sl0, h0, h1, _⟩ := hr
            rw [hs] at h0; cases h0
            exact ⟨_, rfl, h1, rfl⟩
          · exact Or.inr hr
        · simp at h
      | wrOk =>
        simp only [step] at h; split at h
        · simp only [Option.some.injEq] at h; subst h
          obtain ⟨sl0, h0, h1, h2⟩ := hr
          exact Or.inr ⟨sl0.onWrOk, by simp [h0], by rw [onWrOk_op, h1], onWrOk_rel sl0 h2⟩
        · simp at h
      | wrFail =>
        simp only [step] at h; split at h
        · simp only [Option.some.injEq] at h; subst h
          obtain ⟨sl0, h0, h1, h2⟩ := hr
          exact Or.inr ⟨sl0.onWrFail, by simp [h0], by rw [onWrFail_op, h1], onWrFail_rel sl0 h2⟩
        · simp at h
      | rx a =>
        simp only [step, Option.some.injEq] at h; subst h
        right
        refine rel_keep_upd hr ?_
        intro hq; subst hq
        obtain ⟨sl0, h0, h1, h2⟩ := hr
        exact ⟨sl0.onRx a, by simp [h0], by rw [onRx_op, h1], onRx_rel sl0 a h2⟩
      | doneOk op' rcs props =>
        cases hown with
        | same _ _ _ hne _ => exact absurd rfl (hne op')
        | claim _ _ pk he _ _ _ _ _ _ _ _ => cases he
        | done op'' he _ _ _ _ hd' ho =>
          simp only [isDoneEv] at he; subst he
          obtain ⟨sl0, h0, h1, h2⟩ := hr
          by_cases hop : op' = op
          · left; rw [hd']; simp [upd, hop]
          · right
            have := ho p
            simp only [owner, h0, h1, Option.map_some, Option.some.injEq] at this
            have hne : ¬ (op = op') := fun h => hop h.symm
            simp only [hne, false_and, if_false] at this
            simp only [step] at h
            repeat' split at h
            all_goals first | (simp at h; done) | skip
            rename_i _ p' hp' _ sl' hsl' hc
            simp only [Option.some.injEq] at h; subst h
            refine rel_keep_upd ⟨sl0, h0, h1, h2⟩ ?_
            intro hq; subst hq
            simp only [ne_eq, Bool.or_eq_true, decide_eq_true_eq, not_or, Decidable.not_not] at hc
            rw [h0] at hsl'; cases hsl'; exact absurd (h1.symm.trans hc.1) hne
      | doneOther op' =>
        obtain ⟨sl0, h0, h1, h2⟩ := hr
        by_cases hop : op' = op
        · left
          cases hown with
          | same _ _ _ hne _ => exact absurd rfl (hne op')
          | claim _ _ pk he _ _ _ _ _ _ _ _ => cases he
          | done op'' he _ _ _ _ hd' _ => simp only [isDoneEv] at he; subst he; rw [hd']; simp [upd, hop]
        · right
          simp only [step] at h
          repeat' split at h
          all_goals first | (simp at h; done) | skip
          all_goals simp only [Option.some.injEq] at h; subst h
          all_goals first
            | exact ⟨sl0, h0, h1, h2⟩
            | (refine rel_keep_upd ⟨sl0, h0, h1, h2⟩ ?_
               intro hq; subst hq
               rename_i sl' hsl' hop'
               rw [h0] at hsl'; cases hsl'; exact absurd (hop'.symm.trans h1) hop)
      | quiescent =>
        simp only [step] at h; split at h
        · simp only [Option.some.injEq] at h; subst h; exact Or.inr hr
        · simp at h
      | cancelAll => simp only [step, Option.some.injEq] at h; subst h; exact Or.inr hr
      | restart => simp only [step, Option.some.injEq] at h; subst h; exact Or.inr hr
  · -- the PUBREL is this event
    simp only [isRel] at hrel; subst hrel
    obtain ⟨h1, e1, h2, heq, ⟨pk, hpk, hreq⟩, _⟩ := c1
    have hu : usesPid hist op p := ⟨pk, by rw [heq, hpk]; simp, hreq⟩
    have hpid := (II.uses_pid op p).1 hu
    simp only [step] at h; split at h
    · rcases stepPk_spec h with ⟨_, _, _, _, _, _, he, _⟩ | ⟨_, _, _, he, _⟩ | ⟨_, _, _, he, _⟩ | ⟨pid, sl, he, hs, hk, hph, rfl⟩ | ⟨he, _⟩
      all_goals first | (cases he; done) | skip
      simp only [Out.pubrel.injEq] at he; subst he
      by_cases hd : s.isDone op = true
      · exact Or.inl hd
      · right
        have ho := II.slotB op p hpid (by simpa using hd)
        simp only [owner, hs, Option.map_some, Option.some.injEq] at ho
        exact ⟨{ sl with phase := .relWriting, fast := none }, by simp [upd], ho, rfl⟩
    · simp at h

theorem relInv_reach {tr : List Ev} {s : S} (h : run init tr = some s) : RelInv tr s :=
  inv_reach2 IdInv RelInv idInv_init relInv_init idInv_step relInv_step tr s h

/-- **C03 on accepted event lists**: after the PUBREL of a QoS 2 exchange has been written (the successful PUBREC was consumed),
its PUBLISH is never written again -/
theorem no_publish_after_pubrel {pre post : List Ev} {op q p : Nat} {dup : Bool} {body : Nat}
    (hacc : accepts (pre ++ .pk (.publish op q p dup body) :: post) = true) (c : Chain [isReq op p, isRel p] pre) : False := by
  obtain ⟨s, hr⟩ := (accepts_iff _).1 hacc
  obtain ⟨s1, hr1, hr2⟩ := run_prefix hr
  have R := relInv_reach hr1 op p c
  simp only [run] at hr2
  cases hs : step s1 (.pk (.publish op q p dup body)) with
  | none => simp [hs] at hr2
  | some s2 =>
    simp only [step] at hs; split at hs
    · rcases stepPk_spec hs with ⟨op', q', pid, dup', body', k, he, _, s1', hrq, _⟩ | ⟨_, _, _, he, _⟩ | ⟨_, _, _, he, _⟩ | ⟨_, _, he, _⟩ | ⟨he, _⟩
      all_goals first | (cases he; done) | skip
      simp only [Out.publish.injEq] at he
      obtain ⟨rfl, rfl, rfl, rfl, rfl⟩ := he
      obtain ⟨_, hnd, n, _, hc | ⟨sl, hsl, _, _, _, hph, _⟩⟩ := request_spec hrq
      · rcases R with hd | ⟨sl0, h0, _, _⟩
        · rw [hnd] at hd; cases hd
        · rw [hc.1] at h0; cases h0
      · rcases R with hd | ⟨sl0, h0, _, h2⟩
        · rw [hnd] at hd; cases hd
        · rw [hsl] at h0; cases h0
          simp [hph, relPhase] at h2
    · simp at hs




/-- a step labelled with a request packet is an accepted `request` -/
theorem step_publish_request {s s' : S} {op q p : Nat} {dup : Bool} {body : Nat}
    (h : step s (.pk (.publish op q p dup body)) = some s') : ∃ k s1, request s op p k dup body = some s1 := by
  simp only [step] at h; split at h
  · rcases stepPk_spec h with ⟨op', q', pid, dup', body', k, he, _, s1, hrq, _⟩ | ⟨_, _, _, he, _⟩ | ⟨_, _, _, he, _⟩ | ⟨_, _, he, _⟩ | ⟨he, _⟩
    all_goals first | (cases he; done) | skip
    simp only [Out.publish.injEq] at he
    obtain ⟨rfl, rfl, rfl, rfl, rfl⟩ := he
    exact ⟨k, s1, hrq⟩
  · simp at h

/-- **C03 on accepted event lists**: the first transmission of a PUBLISH has DUP = 0 -/
theorem first_transmission_dup_zero {pre post : List Ev} {op q p : Nat} {dup : Bool} {body : Nat}
    (hacc : accepts (pre ++ .pk (.publish op q p dup body) :: post) = true) (hfirst : ∀ p', ¬ usesPid pre op p') : dup = false := by
  obtain ⟨s, hr⟩ := (accepts_iff _).1 hacc
  obtain ⟨s1, hr1, hr2⟩ := run_prefix hr
  have II := idInv_reach hr1
  simp only [run] at hr2
  cases hs : step s1 (.pk (.publish op q p dup body)) with
  | none => simp [hs] at hr2
  | some s2 =>
    obtain ⟨k, s1', hrq⟩ := step_publish_request hs
    obtain ⟨_, _, n, _, hc | ⟨sl, hsl, hop, _, _, _, _⟩⟩ := request_spec hrq
    · exact hc.2.2.1
    · have := (II.slotA p op (by simp [owner, hsl, hop])).2.1
      exact absurd ((II.uses_pid op p).2 this) (hfirst p)

/-! ### DUP = 1 after a successful write -/

theorem pendingPub_snoc {hist : List Ev} {e : Ev} {op : Nat} (h : pendingPub (hist ++ [e]) op) :
    (pendingPub hist op ∧ isWriteEv e = false) ∨ (∃ q p d b, e = .pk (.publish op q p d b)) := by
  obtain ⟨h1, q, p, d, b, mid, heq, hmid⟩ := h
  rcases List.eq_nil_or_concat mid with rfl | ⟨mid', x, rfl⟩
  · have : hist ++ [e] = h1 ++ [Ev.pk (.publish op q p d b)] := by simp [heq]
    obtain ⟨_, he⟩ := List.append_inj' this (by simp)
    simp only [List.cons.injEq, and_true] at he
    exact Or.inr ⟨q, p, d, b, he⟩
  · have : hist ++ [e] = (h1 ++ Ev.pk (.publish op q p d b) :: mid') ++ [x] := by simp [heq]
    obtain ⟨rfl, he⟩ := List.append_inj' this (by simp)
    simp only [List.cons.injEq, and_true] at he; subst he
    exact Or.inl ⟨⟨h1, q, p, d, b, mid', rfl, fun e' he' => hmid e' (by simp [he'])⟩, hmid e (by simp)⟩

theorem writtenOk_snoc {hist : List Ev} {e : Ev} {op : Nat} (h : writtenOk (hist ++ [e]) op) :
    writtenOk hist op ∨ (pendingPub hist op ∧ e = .wrOk) := by
  obtain ⟨h1, q, p, d, b, mid, h2, heq, hmid⟩ := h
  rcases List.eq_nil_or_concat h2 with rfl | ⟨h2', x, rfl⟩
  · have : hist ++ [e] = (h1 ++ Ev.pk (.publish op q p d b) :: mid) ++ [Ev.wrOk] := by simp [heq]
    obtain ⟨rfl, he⟩ := List.append_inj' this (by simp)
    simp only [List.cons.injEq, and_true] at he
    exact Or.inr ⟨⟨h1, q, p, d, b, mid, rfl, hmid⟩, he⟩
  · have : hist ++ [e] = (h1 ++ Ev.pk (.publish op q p d b) :: mid ++ Ev.wrOk :: h2') ++ [x] := by simp [heq]
    obtain ⟨rfl, _⟩ := List.append_inj' this (by simp)
    exact Or.inl ⟨h1, q, p, d, b, mid, h2', by simp, hmid⟩




/-- how one step may change the content of a slot that stays with its operation -/
inductive SlotStep (e : Ev) (sl : Slot) : Slot → Prop
  | same : SlotStep e sl sl
  | connUp (rm : Option Nat) : e = .connUp rm → SlotStep e sl sl.onConnUp
  | wrOk : e = .wrOk → SlotStep e sl sl.onWrOk
  | wrFail : e = .wrFail → SlotStep e sl sl.onWrFail
  | rx (a : Ack) : e = .rx a → SlotStep e sl (sl.onRx a)
  | resend (pk : Out) : e = .pk pk → sl.phase = .idle → SlotStep e sl { sl with phase := .writing, fast := none }
  | rel (pk : Out) : e = .pk pk → sl.phase = .relIdle → SlotStep e sl { sl with phase := .relWriting, fast := none }

theorem upd_other {s : S} {p q : Nat} {o : Option Slot} (hq : p ≠ q) : upd s.slot q o p = s.slot p := by simp [upd, hq]

theorem request_slot {s s' : S} {op pid : Nat} {k : Kind} {dup : Bool} {body : Nat} (pk : Out)
    (h : request s op pid k dup body = some s') {p : Nat} {sl : Slot} (hs : s.slot p = some sl) :
    ∃ sl', s'.slot p = some sl' ∧ SlotStep (.pk pk) sl sl' := by
  obtain ⟨_, _, n, _, hc | ⟨sl0, hs0, _, _, _, hph, rfl⟩⟩ := request_spec h
  · obtain ⟨hfree, _, _, rfl⟩ := hc
    have hne : p ≠ pid := by rintro rfl; rw [hs] at hfree; cases hfree
    exact ⟨sl, by simp [upd, hne, hs], .same⟩
  · by_cases hq : p = pid
    · subst hq; rw [hs] at hs0; cases hs0
      exact ⟨_, by simp [upd], .resend pk rfl hph⟩
    · exact ⟨sl, by simp [upd, hq, hs], .same⟩

theorem slot_step {s s' : S} {e : Ev} (h : step s e = some s') {p : Nat} {sl : Slot} (hs : s.slot p = some sl) :
    s'.isDone sl.op = true ∨ ∃ sl', s'.slot p = some sl' ∧ SlotStep e sl sl' := by
  cases e with
  | init op k n =>
    simp only [step] at h; split at h
    · simp at h
    · simp only [Option.some.injEq] at h; subst h; exact Or.inr ⟨sl, hs, .same⟩
  | connUp rm => simp only [step, Option.some.injEq] at h; subst h; exact Or.inr ⟨sl.onConnUp, by simp [hs], .connUp rm rfl⟩
  | connDown => simp only [step, Option.some.injEq] at h; subst h; exact Or.inr ⟨sl, hs, .same⟩
  | wr =>
    simp only [step] at h; split at h
    · simp at h
    · simp only [Option.some.injEq] at h; subst h; exact Or.inr ⟨sl, hs, .same⟩
  | pk pkt =>
    simp only [step] at h; split at h
    · rcases stepPk_spec h with ⟨op', q, pid, dup, body, k, rfl, _, s1, hrq, ha⟩ | ⟨op', pid, body, rfl, hrq⟩ | ⟨op', pid, body, rfl, hrq⟩ | ⟨pid, sl0, rfl, hs0, hk, hph, rfl⟩ | ⟨rfl, rfl⟩
      · right; rw [(account_frame ha).1]; exact request_slot _ hrq hs
      · right; exact request_slot _ hrq hs
      · right; exact request_slot _ hrq hs
      · right
        by_cases hq : p = pid
        · subst hq; rw [hs] at hs0; cases hs0
          exact ⟨_, by simp [upd], .rel _ rfl hph⟩
        · exact ⟨sl, by simp [upd, hq, hs], .same⟩
      · exact Or.inr ⟨sl, hs, .same⟩
    · simp at h
  | wrOk =>
    simp only [step] at h; split at h
    · simp only [Option.some.injEq] at h; subst h
      exact Or.inr ⟨sl.onWrOk, by simp [hs], .wrOk rfl⟩
    · simp at h
  | wrFail =>
    simp only [step] at h; split at h
    · simp only [Option.some.injEq] at h; subst h
      exact Or.inr ⟨sl.onWrFail, by simp [hs], .wrFail rfl⟩
    · simp at h
  | rx a =>
    simp only [step, Option.some.injEq] at h; subst h
    right
    by_cases hq : p = a.pid
    · subst hq; exact ⟨sl.onRx a, by simp [upd, hs], .rx a rfl⟩
    · exact ⟨sl, by simp [upd, hq, hs], .same⟩
  | doneOk op rcs props =>
    simp only [step] at h
    repeat' split at h
    all_goals first | (simp at h; done) | skip
    rename_i _ p' hp' _ sl' hsl' hc
    simp only [ne_eq, Bool.or_eq_true, decide_eq_true_eq, not_or, Decidable.not_not] at hc
    simp only [Option.some.injEq] at h; subst h
    by_cases hq : p = p'
    · subst hq; rw [hs] at hsl'; cases hsl'; left; simp [upd, hc.1]
    · exact Or.inr ⟨sl, by simp [upd, hq, hs], .same⟩
  | doneOther op =>
    simp only [step] at h
    split at h
    · simp at h
    · split at h
      · simp only [Option.some.injEq] at h; subst h; exact Or.inr ⟨sl, hs, .same⟩
      · rename_i p' hp'
        split at h
        · rename_i sl' hsl'
          split at h
          · rename_i hop
            simp only [Option.some.injEq] at h; subst h
            by_cases hq : p = p'
            · subst hq; rw [hs] at hsl'; cases hsl'; left; simp [upd, hop]
            · exact Or.inr ⟨sl, by simp [upd, hq, hs], .same⟩
          · simp only [Option.some.injEq] at h; subst h; exact Or.inr ⟨sl, hs, .same⟩
        · simp only [Option.some.injEq] at h; subst h; exact Or.inr ⟨sl, hs, .same⟩
  | quiescent =>
    simp only [step] at h; split at h
    · simp only [Option.some.injEq] at h; subst h; exact Or.inr ⟨sl, hs, .same⟩
    · simp at h

  | cancelAll => simp only [step, Option.some.injEq] at h; subst h; exact Or.inr ⟨sl, hs, .same⟩
  | restart => simp only [step, Option.some.injEq] at h; subst h; exact Or.inr ⟨sl, hs, .same⟩
theorem consume_okBefore (sl : Slot) (a : Ack) : (consume sl a).okBefore = sl.okBefore := by
  unfold consume; repeat' split
  all_goals rfl

theorem slotStep_op {e : Ev} {sl sl' : Slot} (h : SlotStep e sl sl') : sl'.op = sl.op := by
  cases h with
  | same => rfl
  | connUp _ _ => exact onConnUp_op sl
  | wrOk _ => exact onWrOk_op sl
  | wrFail _ => exact onWrFail_op sl
  | rx a _ => exact onRx_op sl a
  | resend _ _ _ => rfl
  | rel _ _ _ => rfl

theorem slotStep_okBefore {e : Ev} {sl sl' : Slot} (h : SlotStep e sl sl') (hb : sl.okBefore = true) : sl'.okBefore = true := by
  cases h with
  | same => exact hb
  | connUp _ _ => unfold Slot.onConnUp; repeat' split
                  all_goals exact hb
  | wrOk _ => unfold Slot.onWrOk; repeat' split
              all_goals first | exact hb | rfl | (rw [consume_okBefore] <;> first | exact hb | rfl)
  | wrFail _ => unfold Slot.onWrFail; repeat' split
                all_goals exact hb
  | rx a _ => unfold Slot.onRx; repeat' split
              all_goals first | exact hb | (rw [consume_okBefore]; exact hb)
  | resend _ _ _ => exact hb
  | rel _ _ _ => exact hb

/-- a slot in the write in progress stays there until the write ends -/
theorem slotStep_writing {e : Ev} {sl sl' : Slot} (h : SlotStep e sl sl') (hw : sl.phase = .writing) (he : isWriteEv e = false) : sl'.phase = .writing := by
  cases h with
  | same => exact hw
  | connUp _ _ => unfold Slot.onConnUp; simp only [hw]
  | wrOk h1 => subst h1; simp [isWriteEv] at he
  | wrFail h1 => subst h1; simp [isWriteEv] at he
  | rx a _ =>
    unfold Slot.onRx; split
    · split
      · rename_i h1; rw [hw] at h1; cases h1
      · rename_i h1; rw [hw] at h1; cases h1
      · split <;> exact hw
    · exact hw
  | resend _ _ hph => simp [hw] at hph
  | rel _ _ hph => simp [hw] at hph

theorem onWrOk_sets_okBefore (sl : Slot) (hw : sl.phase = .writing) : sl.onWrOk.okBefore = true := by
  unfold Slot.onWrOk; simp only [hw]
  split
  · rw [consume_okBefore]
  · rfl




structure WInv (hist : List Ev) (s : S) : Prop where
  pend : ∀ op, pendingPub hist op → s.isDone op = true ∨ ∃ p sl, s.slot p = some sl ∧ sl.op = op ∧ sl.phase = .writing
  okb : ∀ op, writtenOk hist op → s.isDone op = true ∨ ∃ p sl, s.slot p = some sl ∧ sl.op = op ∧ sl.okBefore = true

theorem wInv_init : WInv [] init := by
  refine ⟨?_, ?_⟩
  · intro op h; obtain ⟨h1, q, p, d, b, mid, heq, _⟩ := h; simp at heq
  · intro op h; obtain ⟨h1, q, p, d, b, mid, h2, heq, _⟩ := h; simp at heq

theorem isDone_mono {s s' : S} {e : Ev} (h : step s e = some s') {op : Nat} (hd : s.isDone op = true) : s'.isDone op = true := by
  cases step_owner h with
  | same _ hd' _ _ _ => rw [hd']; exact hd
  | claim _ _ _ _ _ _ _ _ _ _ hd' _ => rw [hd']; exact hd
  | done op' _ _ _ _ _ hd' _ => rw [hd']; simp only [upd]; split <;> simp [hd]

theorem wInv_step (hist : List Ev) (s : S) (e : Ev) (s' : S) (I : WInv hist s) (h : step s e = some s') : WInv (hist ++ [e]) s' := by
  refine ⟨?_, ?_⟩
  · intro op hp
    rcases pendingPub_snoc hp with ⟨hp0, hne⟩ | ⟨q, p, d, b, rfl⟩
    · rcases I.pend op hp0 with hd | ⟨p, sl, hs, hop, hw⟩
      · exact Or.inl (isDone_mono h hd)
      · rcases slot_step h hs with hd | ⟨sl', hs', hst⟩
        · left; rw [← hop]; exact hd
        · exact Or.inr ⟨p, sl', hs', (slotStep_op hst).trans hop, slotStep_writing hst hw hne⟩
    · -- this event writes the PUBLISH: its slot is in the write in progress
      right
      simp only [step] at h; split at h
      · rcases stepPk_spec h with ⟨op', q', pid, dup', body', k, he, _, s1, hrq, ha⟩ | ⟨_, _, _, he, _⟩ | ⟨_, _, _, he, _⟩ | ⟨_, _, he, _⟩ | ⟨he, _⟩
        all_goals first | (cases he; done) | skip
        simp only [Out.publish.injEq] at he
        obtain ⟨rfl, rfl, rfl, rfl, rfl⟩ := he
        rw [(account_frame ha).1]
        obtain ⟨_, _, n, _, hc | ⟨sl, hsl, hop, _, _, _, rfl⟩⟩ := request_spec hrq
        · obtain ⟨_, _, _, rfl⟩ := hc
          exact ⟨p, { op := op, kind := k, n := n, phase := .writing, body := b }, by simp [upd], rfl, rfl⟩
        · exact ⟨p, { sl with phase := .writing, fast := none }, by simp [upd], hop, rfl⟩
      · simp at h
  · intro op hw
    rcases writtenOk_snoc hw with hw0 | ⟨hp0, rfl⟩
    · rcases I.okb op hw0 with hd | ⟨p, sl, hs, hop, hb⟩
      · exact Or.inl (isDone_mono h hd)
      · rcases slot_step h hs with hd | ⟨sl', hs', hst⟩
        · left; rw [← hop]; exact hd
        · exact Or.inr ⟨p, sl', hs', (slotStep_op hst).trans hop, slotStep_okBefore hst hb⟩
    · rcases I.pend op hp0 with hd | ⟨p, sl, hs, hop, hph⟩
      · exact Or.inl (isDone_mono h hd)
      · right
        simp only [step] at h; split at h
        · simp only [Option.some.injEq] at h; subst h
          exact ⟨p, sl.onWrOk, by simp [hs], (onWrOk_op sl).trans hop, onWrOk_sets_okBefore sl hph⟩
        · simp at h

theorem wInv_reach {tr : List Ev} {s : S} (h : run init tr = some s) : WInv tr s :=
  inv_reach WInv wInv_init wInv_step tr s h

/-- **C03 on accepted event lists**: a PUBLISH written after a write that contained an earlier transmission of it completed
successfully has DUP = 1 -/
theorem dup_after_successful_write {pre post : List Ev} {op q p : Nat} {dup : Bool} {body : Nat}
    (hacc : accepts (pre ++ .pk (.publish op q p dup body) :: post) = true) (hw : writtenOk pre op) : dup = true := by
  obtain ⟨s, hr⟩ := (accepts_iff _).1 hacc
  obtain ⟨s1, hr1, hr2⟩ := run_prefix hr
  have II := idInv_reach hr1
  have W := (wInv_reach hr1).okb op hw
  simp only [run] at hr2
  cases hs : step s1 (.pk (.publish op q p dup body)) with
  | none => simp [hs] at hr2
  | some s2 =>
    obtain ⟨k, s1', hrq⟩ := step_publish_request hs
    obtain ⟨_, hnd, n, _, hc | ⟨sl, hsl, hop, _, hdup, _, _⟩⟩ := request_spec hrq
    · rcases W with hd | ⟨p', sl', hs', hop', _⟩
      · rw [hnd] at hd; cases hd
      · have := (II.slotA p' op (by simp [owner, hs', hop'])).2.1
        rw [hc.2.1] at this; cases this
    · rcases W with hd | ⟨p', sl', hs', hop', hb⟩
      · rw [hnd] at hd; cases hd
      · have h1 := (II.slotA p' op (by simp [owner, hs', hop'])).2.1
        have h2 := (II.slotA p op (by simp [owner, hsl, hop])).2.1
        rw [h1] at h2; simp only [Option.some.injEq] at h2; subst h2
        rw [hs'] at hsl; cases hsl
        exact hdup hb


/-! ### byte identity of retransmissions -/


/-- the bytes an operation's request was first written with are remembered -/
def BodyInv (hist : List Ev) (s : S) : Prop := ∀ op b, usesBody hist op b → s.bodyOf op = some b

theorem usesBody_snoc (hist : List Ev) (e : Ev) (op b : Nat) :
    usesBody (hist ++ [e]) op b ↔ usesBody hist op b ∨ ∃ pk, e = .pk pk ∧ pk.reqBody = some (op, b) := by
  simp only [usesBody, List.mem_append, List.mem_singleton, or_and_right, exists_or]
  constructor
  · rintro (h | ⟨pk, h1, h2⟩)
    · exact Or.inl h
    · exact Or.inr ⟨pk, h1.symm, h2⟩
  · rintro (h | ⟨pk, h1, h2⟩)
    · exact Or.inl h
    · exact Or.inr ⟨pk, h1.symm, h2⟩

theorem usesBody_usesPid {hist : List Ev} {op b : Nat} (h : usesBody hist op b) : ∃ p, usesPid hist op p := by
  obtain ⟨pk, hm, hb⟩ := h
  cases pk with
  | publish op' q p d b' => simp [Out.reqBody] at hb; exact ⟨p, _, hm, by simp [Out.req, hb.1]⟩
  | subscribe op' p b' => simp [Out.reqBody] at hb; exact ⟨p, _, hm, by simp [Out.req, hb.1]⟩
  | unsubscribe op' p b' => simp [Out.reqBody] at hb; exact ⟨p, _, hm, by simp [Out.req, hb.1]⟩
  | pubrel p => simp [Out.reqBody] at hb
  | other => simp [Out.reqBody] at hb

theorem request_body {hist : List Ev} {s s' : S} {op pid : Nat} {k : Kind} {dup : Bool} {body : Nat} (pk : Out)
    (hpk : pk.reqBody = some (op, body)) (II : IdInv hist s) (I : BodyInv hist s) (h : request s op pid k dup body = some s') :
    BodyInv (hist ++ [.pk pk]) s' := by
  intro op' b' hu
  rw [usesBody_snoc] at hu
  obtain ⟨_, _, n, _, hc | ⟨sl, _, _, hb, _, _, rfl⟩⟩ := request_spec h
  · obtain ⟨_, hnew, _, rfl⟩ := hc
    simp only [upd]
    rcases hu with hu | ⟨pk', he, hr⟩
    · by_cases hop : op' = op
      · subst hop
        obtain ⟨p', hp'⟩ := usesBody_usesPid hu
        rw [(II.uses_pid _ _).1 hp'] at hnew; cases hnew
      · simp [hop]; exact I op' b' hu
    · simp only [Ev.pk.injEq] at he; subst he
      rw [hpk] at hr; simp only [Option.some.injEq, Prod.mk.injEq] at hr
      obtain ⟨rfl, rfl⟩ := hr; simp
  · rcases hu with hu | ⟨pk', he, hr⟩
    · exact I op' b' hu
    · simp only [Ev.pk.injEq] at he; subst he
      rw [hpk] at hr; simp only [Option.some.injEq, Prod.mk.injEq] at hr
      obtain ⟨rfl, rfl⟩ := hr; exact hb

theorem body_keep {hist : List Ev} {s s' : S} {e : Ev} (I : BodyInv hist s) (hb : s'.bodyOf = s.bodyOf)
    (hne : ∀ pk, e = .pk pk → pk.reqBody = none) : BodyInv (hist ++ [e]) s' := by
  intro op b hu
  rw [usesBody_snoc] at hu
  rcases hu with hu | ⟨pk, he, hr⟩
  · rw [hb]; exact I op b hu
  · rw [hne pk he] at hr; cases hr

theorem bodyInv_step (hist : List Ev) (s : S) (e : Ev) (s' : S) (II : IdInv hist s) (I : BodyInv hist s) (h : step s e = some s') :
    BodyInv (hist ++ [e]) s' := by
  cases e with
  | pk p =>
    simp only [step] at h; split at h
    · rcases stepPk_spec h with ⟨op, q, pid, dup, body, k, rfl, _, s1, hr, ha⟩ | ⟨op, pid, body, rfl, hr⟩ | ⟨op, pid, body, rfl, hr⟩ | ⟨pid, sl, rfl, hs, hk, hph, rfl⟩ | ⟨rfl, rfl⟩
      · have I1 := request_body (.publish op q pid dup body) rfl II I hr
        intro op' b' hu; rw [(account_frame ha).2.2.2.2.1]; exact I1 op' b' hu
      · exact request_body _ rfl II I hr
      · exact request_body _ rfl II I hr
      · exact body_keep I rfl (by intro pk he; cases he; rfl)
      · exact body_keep I rfl (by intro pk he; cases he; rfl)
    · simp at h
  | init op k n =>
    simp only [step] at h; split at h
    · simp at h
    · simp only [Option.some.injEq] at h; subst h; exact body_keep I rfl (by intro pk he; cases he)
  | connUp rm => simp only [step, Option.some.injEq] at h; subst h; exact body_keep I rfl (by intro pk he; cases he)
  | connDown => simp only [step, Option.some.injEq] at h; subst h; exact body_keep I rfl (by intro pk he; cases he)
  | wr =>
    simp only [step] at h; split at h
    · simp at h
    · simp only [Option.some.injEq] at h; subst h; exact body_keep I rfl (by intro pk he; cases he)
  | wrOk =>
    simp only [step] at h; split at h
    · simp only [Option.some.injEq] at h; subst h; exact body_keep I rfl (by intro pk he; cases he)
    · simp at h
  | wrFail =>
    simp only [step] at h; split at h
    · simp only [Option.some.injEq] at h; subst h; exact body_keep I rfl (by intro pk he; cases he)
    · simp at h
  | rx a => simp only [step, Option.some.injEq] at h; subst h; exact body_keep I rfl (by intro pk he; cases he)
  | doneOk op rcs props =>
    simp only [step] at h
    repeat' split at h
    all_goals first | (simp at h; done) | skip
    simp only [Option.some.injEq] at h; subst h; exact body_keep I rfl (by intro pk he; cases he)
  | doneOther op =>
    simp only [step] at h
    repeat' split at h
    all_goals first | (simp at h; done) | skip
    all_goals simp only [Option.some.injEq] at h; subst h
    all_goals exact body_keep I rfl (by intro pk he; cases he)
  | quiescent =>
    simp only [step] at h; split at h
    · simp only [Option.some.injEq] at h; subst h; exact body_keep I rfl (by intro pk he; cases he)
    · simp at h

  | cancelAll => simp only [step, Option.some.injEq] at h; subst h; exact body_keep I rfl (by intro pk he; cases he)
  | restart => simp only [step, Option.some.injEq] at h; subst h; exact body_keep I rfl (by intro pk he; cases he)
theorem bodyInv_reach {tr : List Ev} {s : S} (h : run init tr = some s) : BodyInv tr s :=
  inv_reach2 IdInv BodyInv idInv_init (by intro op b h; obtain ⟨pk, hm, _⟩ := h; simp at hm) idInv_step bodyInv_step tr s h

/-- **C03 / C02 on accepted event lists**: every transmission of an operation's request carries the same bytes (DUP masked) -/
theorem retransmission_identical {tr : List Ev} (hacc : accepts tr = true) {op b1 b2 : Nat}
    (u1 : usesBody tr op b1) (u2 : usesBody tr op b2) : b1 = b2 := by
  obtain ⟨s, hr⟩ := (accepts_iff _).1 hacc
  have I := bodyInv_reach hr
  have := I op b1 u1; rw [I op b2 u2] at this; simpa using this.symm


end Mqtt5V.Proofs.Trace
