import Mqtt5V.Model.Trace
/-! Invariants of the composed outbound model (`Model/Trace.lean`), each proved for every event list the model accepts. -/
namespace Mqtt5V.Proofs.Trace
open Mqtt5V.Model.Trace

/-! ### Reachability -/

theorem run_append (s : S) (a b : List Ev) : run s (a ++ b) = (run s a).bind (run · b) := by
  induction a generalizing s with
  | nil => simp [run]
  | cons e es ih =>
    simp only [List.cons_append, run]
    cases step s e with
    | none => simp
    | some s1 => simp [ih]

/-- an accepted list stays accepted when cut short -/
theorem run_prefix {s : S} {a b : List Ev} {s' : S} (h : run s (a ++ b) = some s') : ∃ s1, run s a = some s1 ∧ run s1 b = some s' := by
  rw [run_append] at h
  cases h1 : run s a with
  | none => simp [h1] at h
  | some s1 => exact ⟨s1, rfl, by simpa [h1] using h⟩

/-- induction principle: a predicate on (history, state) that holds initially and is preserved by every accepted step holds after every accepted list -/
theorem inv_run (I : List Ev → S → Prop)
    (hstep : ∀ h s e s', I h s → step s e = some s' → I (h ++ [e]) s') :
    ∀ (tr pre : List Ev) (s s' : S), I pre s → run s tr = some s' → I (pre ++ tr) s' := by
  intro tr
  induction tr with
  | nil => intro pre s s' hI hr; simp [run] at hr; subst hr; simpa using hI
  | cons e es ih =>
    intro pre s s' hI hr
    simp only [run] at hr
    cases h1 : step s e with
    | none => simp [h1] at hr
    | some s1 =>
      simp [h1] at hr
      have := ih (pre ++ [e]) s1 s' (hstep pre s e s1 hI h1) hr
      simpa [List.append_assoc] using this

theorem inv_reach (I : List Ev → S → Prop) (h0 : I [] init)
    (hstep : ∀ h s e s', I h s → step s e = some s' → I (h ++ [e]) s') :
    ∀ tr s, run init tr = some s → I tr s := by
  intro tr s hr
  simpa using inv_run I hstep tr [] init s h0 hr

/-! ### What each accepted step does -/

/-- what an accepted request packet does -/
theorem request_spec {s s' : S} {op pid : Nat} {k : Kind} {dup : Bool} {body : Nat}
    (h : request s op pid k dup body = some s') :
    pid ≠ 0 ∧ s.isDone op = false ∧ ∃ n, s.known op = some (k, n) ∧
    ((s.slot pid = none ∧ s.pidOf op = none ∧ dup = false ∧
        s' = { s with slot := upd s.slot pid (some { op := op, kind := k, n := n, phase := .writing, body := body }),
                      pidOf := upd s.pidOf op (some pid), bodyOf := upd s.bodyOf op (some body) }) ∨
     (∃ sl, s.slot pid = some sl ∧ sl.op = op ∧ s.bodyOf op = some body ∧ (sl.okBefore = true → dup = true) ∧
        sl.phase = .idle ∧
        s' = { s with slot := upd s.slot pid (some { sl with phase := .writing, fast := none }) })) := by
  unfold request at h
  split at h
  · simp at h
  · rename_i hg
    simp only [Bool.or_eq_true, decide_eq_true_eq, not_or, Bool.not_eq_true] at hg
    split at h
    · simp at h
    · rename_i k' n hk
      split at h
      · simp at h
      · rename_i hkk
        simp only [ne_eq, Decidable.not_not] at hkk
        subst hkk
        refine ⟨hg.1, hg.2, n, hk, ?_⟩
        split at h
        · rename_i hs
          split at h
          · simp at h
          · rename_i hc
            simp only [ne_eq, Bool.or_eq_true, decide_eq_true_eq, not_or, Decidable.not_not, Bool.not_eq_true] at hc
            simp only [Option.some.injEq] at h
            exact Or.inl ⟨hs, hc.1, hc.2, h.symm⟩
        · rename_i sl hs
          split at h
          · simp at h
          · rename_i hc
            simp only [ne_eq, Bool.or_eq_true, decide_eq_true_eq, not_or, Decidable.not_not, Bool.and_eq_true, Bool.not_eq_true', not_and, Bool.not_eq_false] at hc
            right
            refine ⟨sl, hs, hc.1.1, hc.1.2, hc.2, ?_⟩
            split at h
            · simp only [Option.some.injEq] at h; rename_i hp; exact ⟨hp, h.symm⟩
            · simp at h

theorem account_spec {s s' : S} {op pid : Nat} (h : account s op pid = some s') :
    (s.connected = false ∧ s' = s) ∨
    (s.connected = true ∧ s.lastPub < op ∧ pid ∈ s.holders ∧ s' = { s with wire := addWire s.wire pid, lastPub := op }) ∨
    (s.connected = true ∧ s.lastPub < op ∧ pid ∉ s.holders ∧ s.quota ≠ 0 ∧
      s' = { s with wire := addWire s.wire pid, holders := pid :: s.holders, quota := s.quota - 1, lastPub := op }) := by
  unfold account at h
  split at h
  · rename_i hc; simp at hc; simp at h; exact Or.inl ⟨hc, h.symm⟩
  · rename_i hc; simp at hc
    split at h
    · simp at h
    · rename_i hl
      have hl' : s.lastPub < op := by omega
      split at h
      · rename_i hh; simp at h; exact Or.inr (Or.inl ⟨hc, hl', hh, h.symm⟩)
      · rename_i hh
        split at h
        · simp at h
        · rename_i hq; simp at h; exact Or.inr (Or.inr ⟨hc, hl', hh, hq, h.symm⟩)

theorem stepPk_spec {s s' : S} {p : Out} (h : stepPk s p = some s') :
    (∃ op q pid dup body k, p = .publish op q pid dup body ∧ ((q = 1 ∧ k = Kind.pub1) ∨ (q = 2 ∧ k = Kind.pub2)) ∧
        ∃ s1, request s op pid k dup body = some s1 ∧ account s1 op pid = some s') ∨
    (∃ op pid body, p = .subscribe op pid body ∧ request s op pid .sub (s.slot pid).isSome body = some s') ∨
    (∃ op pid body, p = .unsubscribe op pid body ∧ request s op pid .unsub (s.slot pid).isSome body = some s') ∨
    (∃ pid sl, p = .pubrel pid ∧ s.slot pid = some sl ∧ sl.kind = .pub2 ∧ sl.phase = .relIdle ∧
        s' = { s with slot := upd s.slot pid (some { sl with phase := .relWriting, fast := none }) }) ∨
    (p = .other ∧ s' = s) := by
  cases p with
  | publish op q pid dup body =>
    simp only [stepPk] at h
    left
    split at h
    · rename_i hq
      rw [Option.bind_eq_some_iff] at h
      obtain ⟨s1, hr, ha⟩ := h
      exact ⟨op, q, pid, dup, body, .pub1, rfl, Or.inl ⟨hq, rfl⟩, s1, hr, ha⟩
    · split at h
      · rename_i hq
        rw [Option.bind_eq_some_iff] at h
        obtain ⟨s1, hr, ha⟩ := h
        exact ⟨op, q, pid, dup, body, .pub2, rfl, Or.inr ⟨hq, rfl⟩, s1, hr, ha⟩
      · simp at h
  | subscribe op pid body => simp only [stepPk] at h; exact Or.inr (Or.inl ⟨op, pid, body, rfl, h⟩)
  | unsubscribe op pid body => simp only [stepPk] at h; exact Or.inr (Or.inr (Or.inl ⟨op, pid, body, rfl, h⟩))
  | pubrel pid =>
    simp only [stepPk] at h
    right; right; right; left
    split at h
    · rename_i sl hs
      split at h
      · simp at h
      · rename_i hk
        simp only [ne_eq, Decidable.not_not] at hk
        split at h
        · rename_i hp; simp only [Option.some.injEq] at h; exact ⟨pid, sl, rfl, hs, hk, hp, h.symm⟩
        · simp at h
    · simp at h
  | other => simp only [stepPk, Option.some.injEq] at h; exact Or.inr (Or.inr (Or.inr (Or.inr ⟨rfl, h.symm⟩)))

/-! ### Ownership of identifiers -/

theorem account_frame {s s' : S} {op pid : Nat} (h : account s op pid = some s') :
    s'.slot = s.slot ∧ s'.pidOf = s.pidOf ∧ s'.isDone = s.isDone ∧ s'.known = s.known ∧ s'.bodyOf = s.bodyOf ∧ s'.writing = s.writing := by
  rcases account_spec h with ⟨_, rfl⟩ | ⟨_, _, _, rfl⟩ | ⟨_, _, _, _, rfl⟩ <;> simp

def owner (s : S) (p : Nat) : Option Nat := (s.slot p).map (·.op)

/-- how a step changes who owns which identifier -/
inductive OwnerStep (s s' : S) (e : Ev) : Prop
  | same (hp : s'.pidOf = s.pidOf) (hd : s'.isDone = s.isDone) (ho : ∀ q, owner s' q = owner s q)
      (hne : ∀ op, ¬ isDoneEv op e)
      (hreq : ∀ pk op p, e = .pk pk → pk.req = some (op, p) → owner s p = some op)
  | claim (op p : Nat) (pk : Out) (he : e = .pk pk) (hr : pk.req = some (op, p)) (hp0 : p ≠ 0) (hnd : s.isDone op = false)
      (hfree : s.slot p = none) (hnew : s.pidOf op = none)
      (hp : s'.pidOf = upd s.pidOf op (some p)) (hd : s'.isDone = s.isDone)
      (ho : ∀ q, owner s' q = if q = p then some op else owner s q)
  | done (op : Nat) (he : isDoneEv op e) (huniq : ∀ op', isDoneEv op' e → op' = op) (hnk : ∀ pk, e ≠ .pk pk) (hnd : s.isDone op = false)
      (hp : s'.pidOf = s.pidOf) (hd : s'.isDone = upd s.isDone op true)
      (ho : ∀ q, owner s' q = if owner s q = some op ∧ s.pidOf op = some q then none else owner s q)

theorem owner_upd_same {s s' : S} {p : Nat} {sl sl' : Slot} (hslot : s'.slot = upd s.slot p (some sl')) (hs : s.slot p = some sl) (ho : sl'.op = sl.op) (q : Nat) :
    owner s' q = owner s q := by
  unfold owner; rw [hslot]; unfold upd
  by_cases hq : q = p
  · subst hq; simp [hs, ho]
  · simp [hq]

theorem request_owner {s s' : S} {op pid : Nat} {k : Kind} {dup : Bool} {body : Nat} (pk : Out) (hpk : pk.req = some (op, pid))
    (h : request s op pid k dup body = some s') : OwnerStep s s' (.pk pk) := by
  obtain ⟨hp0, hnd, n, hk, hc | ⟨sl, hs, hop, hb, hdup, hph, rfl⟩⟩ := request_spec h
  · obtain ⟨hfree, hnew, hd, rfl⟩ := hc
    refine .claim op pid pk rfl hpk hp0 hnd hfree hnew rfl rfl ?_
    intro q; unfold owner upd; by_cases hq : q = pid <;> simp [hq]
  · refine .same rfl rfl ?_ (by intro op h; exact h) ?_
    · intro q; exact owner_upd_same (sl' := { sl with phase := .writing, fast := none }) rfl hs rfl q
    · intro pk' op' p' he hr
      simp only [Ev.pk.injEq] at he; subst he
      rw [hpk] at hr; simp only [Option.some.injEq, Prod.mk.injEq] at hr
      obtain ⟨rfl, rfl⟩ := hr
      simp [owner, hs, hop]


theorem consume_op (sl : Slot) (a : Ack) : (consume sl a).op = sl.op := by
  unfold consume; repeat' split
  all_goals rfl

theorem onWrOk_op (sl : Slot) : sl.onWrOk.op = sl.op := by
  unfold Slot.onWrOk; repeat' split
  all_goals first | rfl | exact consume_op _ _

theorem onWrFail_op (sl : Slot) : sl.onWrFail.op = sl.op := by
  unfold Slot.onWrFail; repeat' split
  all_goals rfl

theorem onConnUp_op (sl : Slot) : sl.onConnUp.op = sl.op := by
  unfold Slot.onConnUp; repeat' split
  all_goals rfl

theorem onRx_op (sl : Slot) (a : Ack) : (sl.onRx a).op = sl.op := by
  unfold Slot.onRx; repeat' split
  all_goals first | rfl | exact consume_op _ _

theorem OwnerStep.congr {s s1 s' : S} {e : Ev} (h : OwnerStep s s1 e) (h1 : s'.slot = s1.slot) (h2 : s'.pidOf = s1.pidOf)
    (h3 : s'.isDone = s1.isDone) : OwnerStep s s' e := by
  have ho : ∀ q, owner s' q = owner s1 q := by intro q; simp [owner, h1]
  cases h with
  | same hp hd hoo hne hreq => exact .same (h2 ▸ hp) (h3 ▸ hd) (fun q => (ho q).trans (hoo q)) hne hreq
  | claim op p pk he hr hp0 hnd hfree hnew hp hd hoo => exact .claim op p pk he hr hp0 hnd hfree hnew (h2 ▸ hp) (h3 ▸ hd) (fun q => (ho q).trans (hoo q))
  | done op he hu hnk hnd hp hd hoo => exact .done op he hu hnk hnd (h2 ▸ hp) (h3 ▸ hd) (fun q => (ho q).trans (hoo q))

theorem OwnerStep.sameOf {s s' : S} {e : Ev} (hp : s'.pidOf = s.pidOf) (hd : s'.isDone = s.isDone) (ho : ∀ q, owner s' q = owner s q)
    (hne : ∀ op, ¬ isDoneEv op e) (hnk : ∀ pk, e = .pk pk → pk.req = none) : OwnerStep s s' e :=
  .same hp hd ho hne (by intro pk op p he hr; rw [hnk pk he] at hr; simp at hr)

theorem owner_free {s : S} {op p : Nat} {sl : Slot} (hp : s.pidOf op = some p) (hs : s.slot p = some sl) (hop : sl.op = op) (q : Nat) :
    Option.map (·.op) (upd s.slot p none q) = if owner s q = some op ∧ s.pidOf op = some q then none else owner s q := by
  by_cases hq : q = p
  · subst hq; simp [owner, upd, hs, hop, hp]
  · have hne : ¬ (p = q) := fun h => hq h.symm
    simp [owner, upd, hq, hp, hne]

theorem owner_keep {s : S} {op p : Nat} (hp : s.pidOf op = some p) (hs : owner s p ≠ some op) (q : Nat) :
    owner s q = if owner s q = some op ∧ s.pidOf op = some q then none else owner s q := by
  by_cases hq : q = p
  · subst hq; simp [hs]
  · have hne : ¬ (p = q) := fun h => hq h.symm
    simp [hp, hne]

theorem step_owner {s s' : S} {e : Ev} (h : step s e = some s') : OwnerStep s s' e := by
  cases e with
  | init op k n =>
    simp only [step] at h; split at h
    · simp at h
    · simp only [Option.some.injEq] at h; subst h
      exact .sameOf rfl rfl (fun _ => rfl) (fun _ h => h) (by intro pk he; cases he)
  | connUp rm =>
    simp only [step, Option.some.injEq] at h; subst h
    refine .sameOf rfl rfl ?_ (fun _ h => h) (by intro pk he; cases he)
    intro q; simp only [owner]; cases s.slot q <;> simp [onConnUp_op]
  | connDown => simp only [step, Option.some.injEq] at h; subst h; exact .sameOf rfl rfl (fun _ => rfl) (fun _ h => h) (by intro pk he; cases he)
  | wr =>
    simp only [step] at h; split at h
    · simp at h
    · simp only [Option.some.injEq] at h; subst h; exact .sameOf rfl rfl (fun _ => rfl) (fun _ h => h) (by intro pk he; cases he)
  | pk p =>
    simp only [step] at h; split at h
    · rcases stepPk_spec h with ⟨op, q, pid, dup, body, k, rfl, _, s1, hr, ha⟩ | ⟨op, pid, body, rfl, hr⟩ | ⟨op, pid, body, rfl, hr⟩ | ⟨pid, sl, rfl, hs, _, _, rfl⟩ | ⟨rfl, rfl⟩
      · obtain ⟨f1, f2, f3, _⟩ := account_frame ha
        exact (request_owner (.publish op q pid dup body) rfl hr).congr f1 f2 f3
      · exact request_owner (.subscribe op pid body) rfl hr
      · exact request_owner (.unsubscribe op pid body) rfl hr
      · refine .sameOf rfl rfl ?_ (fun _ h => h) (by intro pk he; cases he; rfl)
        intro q; exact owner_upd_same (sl' := { sl with phase := .relWriting, fast := none }) rfl hs rfl q
      · exact .sameOf rfl rfl (fun _ => rfl) (fun _ h => h) (by intro pk he; cases he; rfl)
    · simp at h
  | wrOk =>
    simp only [step] at h; split at h
    · simp only [Option.some.injEq] at h; subst h
      refine .sameOf rfl rfl ?_ (fun _ h => h) (by intro pk he; cases he)
      intro q; simp only [owner]; cases s.slot q <;> simp [onWrOk_op]
    · simp at h
  | wrFail =>
    simp only [step] at h; split at h
    · simp only [Option.some.injEq] at h; subst h
      refine .sameOf rfl rfl ?_ (fun _ h => h) (by intro pk he; cases he)
      intro q; simp only [owner]; cases s.slot q <;> simp [onWrFail_op]
    · simp at h
  | rx a =>
    simp only [step, Option.some.injEq] at h; subst h
    refine .sameOf ?_ ?_ ?_ (fun _ h => h) (by intro pk he; cases he)
    · repeat' split
      all_goals rfl
    · repeat' split
      all_goals rfl
    · intro q; simp only [owner, upd]
      by_cases hq : q = a.pid
      · rw [hq]; cases hsl : s.slot a.pid <;> simp [onRx_op]
      · simp [hq]
  | doneOk op rcs props =>
    simp only [step] at h
    split at h
    · simp at h
    · rename_i hnd
      split at h
      · simp at h
      · rename_i p hp
        split at h
        · simp at h
        · rename_i sl hs
          split at h
          · simp at h
          · rename_i hc
            simp only [ne_eq, Bool.or_eq_true, decide_eq_true_eq, not_or, Decidable.not_not] at hc
            simp only [Option.some.injEq] at h; subst h
            refine .done op rfl (by intro op' h; exact h.symm) (by intro pk he; cases he) (by have := hnd; simp only [Bool.or_eq_true, not_or, Bool.not_eq_true] at this; exact this.1) rfl rfl ?_
            intro q; exact owner_free hp hs hc.1 q
  | doneOther op =>
    simp only [step] at h
    split at h
    · simp at h
    · rename_i hg
      simp only [Bool.or_eq_true, not_or, Bool.not_eq_true, Option.isNone_iff_eq_none] at hg
      split at h
      · rename_i hp
        simp only [Option.some.injEq] at h; subst h
        refine .done op rfl (by intro op' h; exact h.symm) (by intro pk he; cases he) hg.1 rfl rfl ?_
        intro q; simp [owner, hp]
      · rename_i p hp
        split at h
        · rename_i sl hs
          split at h
          · rename_i hop
            simp only [Option.some.injEq] at h; subst h
            refine .done op rfl (by intro op' h; exact h.symm) (by intro pk he; cases he) hg.1 rfl rfl ?_
            intro q; exact owner_free hp hs hop q
          · rename_i hop
            simp only [Option.some.injEq] at h; subst h
            refine .done op rfl (by intro op' h; exact h.symm) (by intro pk he; cases he) hg.1 rfl rfl ?_
            intro q; exact owner_keep hp (by simp [owner, hs, hop]) q
        · rename_i hs
          simp only [Option.some.injEq] at h; subst h
          refine .done op rfl (by intro op' h; exact h.symm) (by intro pk he; cases he) hg.1 rfl rfl ?_
          intro q; exact owner_keep hp (by simp [owner, hs]) q
  | quiescent =>
    simp only [step] at h; split at h
    · simp only [Option.some.injEq] at h; subst h; exact .sameOf rfl rfl (fun _ => rfl) (fun _ h => h) (by intro pk he; cases he)
    · simp at h

  | cancelAll => simp only [step, Option.some.injEq] at h; subst h; exact .sameOf rfl rfl (fun _ => rfl) (fun _ h => h) (by intro pk he; cases he)
  | restart => simp only [step, Option.some.injEq] at h; subst h; exact .sameOf rfl rfl (fun _ => rfl) (fun _ h => h) (by intro pk he; cases he)
/-- identity bookkeeping: completions, identifier ↔ operation, related to the history -/
structure IdInv (hist : List Ev) (s : S) : Prop where
  done_iff : ∀ op, s.isDone op = true ↔ doneIn hist op
  slotA : ∀ p op, owner s p = some op → p ≠ 0 ∧ s.pidOf op = some p ∧ s.isDone op = false
  slotB : ∀ op p, s.pidOf op = some p → s.isDone op = false → owner s p = some op
  uses_pid : ∀ op p, usesPid hist op p ↔ s.pidOf op = some p

theorem doneIn_snoc (hist : List Ev) (e : Ev) (op : Nat) : doneIn (hist ++ [e]) op ↔ doneIn hist op ∨ isDoneEv op e := by
  simp [doneIn, List.mem_append, or_and_right, exists_or]

theorem usesPid_snoc (hist : List Ev) (e : Ev) (op p : Nat) :
    usesPid (hist ++ [e]) op p ↔ usesPid hist op p ∨ ∃ pk, e = .pk pk ∧ pk.req = some (op, p) := by
  simp only [usesPid, List.mem_append, List.mem_singleton, or_and_right, exists_or]
  constructor
  · rintro (h | ⟨pk, h1, h2⟩)
    · exact Or.inl h
    · exact Or.inr ⟨pk, h1.symm, h2⟩
  · rintro (h | ⟨pk, h1, h2⟩)
    · exact Or.inl h
    · exact Or.inr ⟨pk, h1.symm, h2⟩

theorem idInv_init : IdInv [] init := by
  refine ⟨?_, ?_, ?_, ?_⟩
  · intro op; simp [init, doneIn]
  · intro p op h; simp [owner, init] at h
  · intro op p h; simp [init] at h
  · intro op p; simp [usesPid, init]

theorem idInv_step (hist : List Ev) (s : S) (e : Ev) (s' : S) (I : IdInv hist s) (h : step s e = some s') : IdInv (hist ++ [e]) s' := by
  have ho := step_owner h
  cases ho with
  | same hp hd hoo hne hreq =>
    refine ⟨?_, ?_, ?_, ?_⟩
    · intro op; rw [doneIn_snoc, hd, I.done_iff]; simp [hne op]
    · intro p op hown; rw [hoo] at hown; rw [hp, hd]; exact I.slotA p op hown
    · intro op p h1 h2; rw [hp] at h1; rw [hd] at h2; rw [hoo]; exact I.slotB op p h1 h2
    · intro op p; rw [usesPid_snoc, hp, I.uses_pid]
      constructor
      · rintro (h1 | ⟨pk, he, hr⟩)
        · exact h1
        · exact (I.slotA p op (hreq pk op p he hr)).2.1
      · intro h1; exact Or.inl h1
  | claim op p pk he hr hp0 hnd hfree hnew hp hd hoo =>
    refine ⟨?_, ?_, ?_, ?_⟩
    · intro op'; rw [doneIn_snoc, hd, I.done_iff]; subst he; simp [isDoneEv]
    · intro q op' hown; rw [hoo] at hown; rw [hp, hd]
      by_cases hq : q = p
      · subst hq; simp at hown; subst hown; exact ⟨hp0, by simp [upd], hnd⟩
      · simp [hq] at hown
        obtain ⟨h1, h2, h3⟩ := I.slotA q op' hown
        refine ⟨h1, ?_, h3⟩
        simp only [upd]
        by_cases hop : op' = op
        · subst hop; rw [hnew] at h2; cases h2
        · simp [hop, h2]
    · intro op' q h1 h2; rw [hp] at h1; rw [hd] at h2; rw [hoo]
      simp only [upd] at h1
      by_cases hop : op' = op
      · subst hop; simp at h1; subst h1; simp
      · simp [hop] at h1
        have := I.slotB op' q h1 h2
        by_cases hq : q = p
        · subst hq; simp [owner, hfree] at this
        · simp [hq, this]
    · intro op' q; rw [usesPid_snoc, hp, I.uses_pid]; subst he
      simp only [Ev.pk.injEq, exists_eq_left', upd]
      by_cases hop : op' = op
      · subst hop
        simp only [if_true, hnew, Option.some.injEq]
        rw [hr]; simp
        try (constructor <;> (intro h; exact h.symm))
      · simp only [hop, if_false]
        rw [hr]; simp
        intro h1; exact absurd h1.symm hop
  | done op he huniq hnk hnd hp hd hoo =>
    refine ⟨?_, ?_, ?_, ?_⟩
    · intro op'; rw [doneIn_snoc, hd, ← I.done_iff]; simp only [upd]
      by_cases hop : op' = op
      · subst hop; simp [he]
      · simp [hop]; intro h1; exact absurd (huniq op' h1) hop
    · intro q op' hown; rw [hoo] at hown; rw [hp, hd]
      split at hown
      · cases hown
      · rename_i hc
        obtain ⟨h1, h2, h3⟩ := I.slotA q op' hown
        refine ⟨h1, h2, ?_⟩
        simp only [upd]
        by_cases hop : op' = op
        · subst hop; exact absurd ⟨hown, h2⟩ hc
        · simp [hop, h3]
    · intro op' q h1 h2; rw [hp] at h1; rw [hd] at h2; rw [hoo]
      simp only [upd] at h2
      by_cases hop : op' = op
      · subst hop; simp at h2
      · simp [hop] at h2
        have h3 := I.slotB op' q h1 h2
        rw [h3]; simp; intro h4; exact absurd h4 hop
    · intro op' q; rw [usesPid_snoc, hp, I.uses_pid]
      constructor
      · rintro (h1 | ⟨pk, he', _⟩)
        · exact h1
        · exact absurd he' (hnk pk)
      · intro h1; exact Or.inl h1

theorem idInv_reach {tr : List Ev} {s : S} (h : run init tr = some s) : IdInv tr s :=
  inv_reach IdInv idInv_init idInv_step tr s h

/-! ### C05 / C08 on accepted event lists -/

theorem accepts_iff (tr : List Ev) : accepts tr = true ↔ ∃ s, run init tr = some s := by
  simp [accepts, Option.isSome_iff_exists]

/-- a step labelled with a completion of `op` is refused once `op` has completed -/
theorem done_refused {s s' : S} {e : Ev} {op : Nat} (h : step s e = some s') (he : isDoneEv op e) : s.isDone op = false := by
  cases step_owner h with
  | same _ _ _ hne _ => exact absurd he (hne op)
  | claim op' p pk he' _ _ _ _ _ _ _ _ => subst he'; simp [isDoneEv] at he
  | done op' he' huniq _ hnd _ _ _ => rw [huniq op he]; exact hnd

/-- C05 (exactly once): no accepted event list contains two completions of one operation -/
theorem complete_once {tr : List Ev} (hacc : accepts tr = true) {a b c : List Ev} {d1 d2 : Ev} {op : Nat}
    (hsplit : tr = a ++ d1 :: b ++ d2 :: c) (h1 : isDoneEv op d1) (h2 : isDoneEv op d2) : False := by
  obtain ⟨s, hr⟩ := (accepts_iff tr).1 hacc
  have e1 : tr = (a ++ d1 :: b) ++ ([d2] ++ c) := by simp [hsplit]
  rw [e1] at hr
  obtain ⟨s1, hr1, hr2⟩ := run_prefix hr
  obtain ⟨s2, hr3, _⟩ := run_prefix hr2
  have I := idInv_reach hr1
  have hd : s1.isDone op = true := (I.done_iff op).2 ⟨d1, by simp, h1⟩
  simp only [run] at hr3
  cases hs : step s1 d2 with
  | none => simp [hs] at hr3
  | some s3 => rw [done_refused hs h2] at hd; cases hd

/-- C08: two operations whose requests carried the same identifier are not outstanding at the same time -/
theorem pid_unique {tr : List Ev} {s : S} (hr : run init tr = some s) {o1 o2 p : Nat}
    (u1 : usesPid tr o1 p) (u2 : usesPid tr o2 p) (n1 : ¬ doneIn tr o1) (n2 : ¬ doneIn tr o2) : o1 = o2 := by
  have I := idInv_reach hr
  have d1 : s.isDone o1 = false := by cases h : s.isDone o1 <;> simp_all [I.done_iff]
  have d2 : s.isDone o2 = false := by cases h : s.isDone o2 <;> simp_all [I.done_iff]
  have w1 := I.slotB o1 p ((I.uses_pid o1 p).1 u1) d1
  have w2 := I.slotB o2 p ((I.uses_pid o2 p).1 u2) d2
  rw [w1] at w2; simpa using w2

/-- C08: an operation keeps its identifier -/
theorem pid_stable {tr : List Ev} {s : S} (hr : run init tr = some s) {op p1 p2 : Nat}
    (u1 : usesPid tr op p1) (u2 : usesPid tr op p2) : p1 = p2 := by
  have I := idInv_reach hr
  have := (I.uses_pid op p1).1 u1
  rw [(I.uses_pid op p2).1 u2] at this; simpa using this.symm

/-- C08: the identifier is never 0 -/
theorem pid_nonzero {tr : List Ev} {s : S} (hr : run init tr = some s) {op p : Nat} (u : usesPid tr op p) : p ≠ 0 := by
  obtain ⟨pk, hmem, hreq⟩ := u
  obtain ⟨a, b, rfl⟩ := List.append_of_mem hmem
  have e1 : a ++ Ev.pk pk :: b = a ++ ([Ev.pk pk] ++ b) := by simp
  rw [e1] at hr
  obtain ⟨s1, _, hr2⟩ := run_prefix hr
  obtain ⟨s2, hr3, _⟩ := run_prefix hr2
  simp only [run] at hr3
  cases hs : step s1 (.pk pk) with
  | none => simp [hs] at hr3
  | some s3 =>
    simp only [step] at hs
    split at hs
    · rcases stepPk_spec hs with ⟨op', q, pid, dup, body, k, rfl, _, s1', hrq, _⟩ | ⟨op', pid, body, rfl, hrq⟩ | ⟨op', pid, body, rfl, hrq⟩ | ⟨pid, sl, rfl, _⟩ | ⟨rfl, _⟩
      all_goals first
        | (simp only [Out.req, Option.some.injEq, Prod.mk.injEq] at hreq; obtain ⟨_, rfl⟩ := hreq; exact (request_spec hrq).1)
        | (simp [Out.req] at hreq)
    · simp at hs

end Mqtt5V.Proofs.Trace
