import Mqtt5V.Model.Frame
/-! Lemmas about the frame reassembly model: verdicts of the parser are stable under appending bytes, every packet taken off
the buffer shrinks it, the fuel of `drain` is never exhausted, and draining distributes over chunk boundaries. -/
namespace Mqtt5V.Proofs.Frame
open Mqtt5V.Wire Mqtt5V.Model.Frame


theorem varint_ok_append (r c : Bs) (v u : Nat) (h : varint r = .ok v u) : varint (r ++ c) = .ok v u := by
  rcases r with _ | ⟨a, _ | ⟨b, _ | ⟨c', _ | ⟨d, t⟩⟩⟩⟩ <;> simp only [varint, List.cons_append, List.nil_append] at h ⊢
  all_goals (try cases h)
  all_goals grind [varint]

theorem varint_bad_append (r c : Bs) (h : varint r = .bad) : varint (r ++ c) = .bad := by
  rcases r with _ | ⟨a, _ | ⟨b, _ | ⟨c', _ | ⟨d, t⟩⟩⟩⟩ <;> simp only [varint, List.cons_append, List.nil_append] at h ⊢
  all_goals (try cases h)
  all_goals grind [varint]

theorem varint_need_short (r : Bs) (h : varint r = .need) : r.length ≤ 3 := by
  rcases r with _ | ⟨a, _ | ⟨b, _ | ⟨c', _ | ⟨d, t⟩⟩⟩⟩ <;> simp only [varint] at h ⊢
  all_goals (try simp)
  all_goals grind

theorem varint_ok_used (r : Bs) (v u : Nat) (h : varint r = .ok v u) : 1 ≤ u ∧ u ≤ r.length := by
  rcases r with _ | ⟨a, _ | ⟨b, _ | ⟨c', _ | ⟨d, t⟩⟩⟩⟩ <;> simp only [varint] at h
  all_goals (try cases h)
  all_goals (simp only [List.length_cons, List.length_nil]; grind)

theorem parseOne_malformed_append (max : Nat) (b c : Bs) (h : parseOne max b = .malformed) : parseOne max (b ++ c) = .malformed := by
  cases b with
  | nil => simp [parseOne] at h
  | cons cb r =>
    simp only [parseOne, List.cons_append] at h ⊢
    by_cases h0 : cb / 16 = 0
    · simp [h0]
    · simp only [h0, if_false] at h ⊢
      cases hv : varint r with
      | ok v u =>
        rw [hv] at h
        rw [varint_ok_append r c v u hv]
        simp only at h ⊢
        by_cases h1 : v > max - (1 + u)
        · simp [h1]
        · simp only [h1, if_false] at h
          split at h <;> cases h
      | bad =>
        rw [hv] at h
        rw [varint_bad_append r c hv]
        simp only [List.length_cons, List.length_append] at h ⊢
        by_cases hl : r.length + 1 < 5
        · rw [if_pos hl] at h; cases h
        · have : ¬ (r.length + c.length + 1 < 5) := by omega
          rw [if_neg this]
      | need =>
        rw [hv] at h
        have := varint_need_short r hv
        simp only [List.length_cons] at h
        rw [if_pos (by omega)] at h
        cases h

theorem parseOne_packet_append (max : Nat) (b c : Bs) (cb : Nat) (body rest : Bs) (h : parseOne max b = .packet cb body rest) :
    parseOne max (b ++ c) = .packet cb body (rest ++ c) := by
  cases b with
  | nil => simp [parseOne] at h
  | cons cb' r =>
    simp only [parseOne, List.cons_append] at h ⊢
    by_cases h0 : cb' / 16 = 0
    · simp [h0] at h
    · simp only [h0, if_false] at h ⊢
      cases hv : varint r with
      | ok v u =>
        rw [hv] at h
        rw [varint_ok_append r c v u hv]
        have hu := varint_ok_used r v u hv
        simp only at h ⊢
        by_cases h1 : v > max - (1 + u)
        · simp [h1] at h
        · simp only [h1, if_false] at h ⊢
          by_cases h2 : r.length - u < v
          · simp [h2] at h
          · simp only [h2, if_false] at h
            injection h with e1 e2 e3
            subst e1 e2 e3
            have h3 : ¬ (r ++ c).length - u < v := by simp; omega
            simp only [h3, if_false]
            have hd : (r ++ c).drop u = r.drop u ++ c := List.drop_append_of_le_length hu.2
            rw [hd]
            have hl : v ≤ (r.drop u).length := by simp; omega
            rw [List.take_append_of_le_length hl, List.drop_append_of_le_length hl]
      | bad => rw [hv] at h; simp only at h; split at h <;> cases h
      | need => rw [hv] at h; simp only at h; split at h <;> cases h

theorem parseOne_packet_shorter (max : Nat) (b : Bs) (cb : Nat) (body rest : Bs) (h : parseOne max b = .packet cb body rest) :
    rest.length + 2 ≤ b.length := by
  cases b with
  | nil => simp [parseOne] at h
  | cons cb' r =>
    simp only [parseOne] at h
    by_cases h0 : cb' / 16 = 0
    · simp [h0] at h
    · simp only [h0, if_false] at h
      cases hv : varint r with
      | ok v u =>
        rw [hv] at h
        have hu := varint_ok_used r v u hv
        simp only at h
        by_cases h1 : v > max - (1 + u)
        · simp [h1] at h
        · simp only [h1, if_false] at h
          by_cases h2 : r.length - u < v
          · simp [h2] at h
          · simp only [h2, if_false] at h
            injection h with e1 e2 e3
            subst e3
            simp
            omega
      | bad => rw [hv] at h; simp only at h; split at h <;> cases h
      | need => rw [hv] at h; simp only at h; split at h <;> cases h

theorem andThen_consEv (e : Ev) (p : Out) (k : Bs → Out) : andThen (consEv e p) k = consEv e (andThen p k) := by
  unfold andThen consEv
  cases p.2 <;> simp

/-- with enough fuel the result does not depend on the fuel: the loop always ends by itself -/
theorem drain_fuel (max : Nat) : ∀ (n : Nat) (b : Bs) (f1 f2 : Nat), b.length < n → b.length + 1 ≤ f1 → b.length + 1 ≤ f2 →
    drain max f1 b = drain max f2 b := by
  intro n
  induction n with
  | zero => intro b f1 f2 h; omega
  | succ n ih =>
    intro b f1 f2 hb h1 h2
    cases f1 with
    | zero => omega
    | succ f1 =>
      cases f2 with
      | zero => omega
      | succ f2 =>
        simp only [drain]
        cases hp : parseOne max b with
        | more => rfl
        | malformed => rfl
        | packet cb body rest =>
          have hs := parseOne_packet_shorter max b cb body rest hp
          have e := ih rest f1 f2 (by omega) (by omega) (by omega)
          simp only [e]

theorem drain_eq_full (max : Nat) (b : Bs) (f : Nat) (h : b.length + 1 ≤ f) : drain max f b = drainFull max b :=
  drain_fuel max (b.length + 1) b f (b.length + 1) (by omega) h (by omega)

/-- one step of the loop, with the recursive call on the rest of the buffer at full fuel -/
def stepOut (max : Nat) (b : Bs) (k : Bs → Out) : Out :=
  match parseOne max b with
  | .more => ([], some b)
  | .malformed => ([.err], none)
  | .packet cb body rest =>
    if !validHeader cb then ([.err], none) else
    if cb / 16 = 13 then k rest
    else if cb / 16 ≠ 3 ∧ cb / 16 ≠ 15 ∧ cb / 16 ≠ 14 then
      if body.length < 2 then ([.err], none)
      else consEv (.reply (cb / 16) (body.getD 0 0 * 256 + body.getD 1 0) (body.drop 2)) (k rest)
    else consEv (.msg cb body) (k rest)

theorem drainFull_unfold (max : Nat) (b : Bs) : drainFull max b = stepOut max b (drainFull max) := by
  rw [drainFull, drain]
  unfold stepOut
  cases hp : parseOne max b with
  | more => rfl
  | malformed => rfl
  | packet cb body rest =>
    have hs := parseOne_packet_shorter max b cb body rest hp
    simp only
    rw [drain_eq_full max rest b.length (by omega)]

/-- **draining distributes over a chunk boundary** -/
theorem drain_append (max : Nat) : ∀ (n : Nat) (b c : Bs), b.length < n →
    drainFull max (b ++ c) = andThen (drainFull max b) (fun r => drainFull max (r ++ c)) := by
  intro n
  induction n with
  | zero => intro b c h; omega
  | succ n ih =>
    intro b c hb
    rw [drainFull_unfold max b]
    cases hp : parseOne max b with
    | more => simp [stepOut, hp, andThen]
    | malformed =>
      rw [drainFull_unfold max (b ++ c)]
      simp [stepOut, hp, parseOne_malformed_append max b c hp, andThen]
    | packet cb body rest =>
      have hs := parseOne_packet_shorter max b cb body rest hp
      have hp2 := parseOne_packet_append max b c cb body rest hp
      have ihr := ih rest c (by omega)
      rw [drainFull_unfold max (b ++ c)]
      simp only [stepOut, hp, hp2]
      by_cases hv : validHeader cb
      · simp only [hv, Bool.not_true, Bool.false_eq_true, if_false]
        by_cases h13 : cb / 16 = 13
        · simp only [h13, if_true]; exact ihr
        · simp only [h13, if_false]
          by_cases hr : cb / 16 ≠ 3 ∧ cb / 16 ≠ 15 ∧ cb / 16 ≠ 14
          · simp only [if_pos hr]
            by_cases hl : body.length < 2
            · simp [hl, andThen]
            · simp only [hl, if_false]
              rw [andThen_consEv, ihr]
          · simp only [if_neg hr]
            rw [andThen_consEv, ihr]
      · simp [hv, andThen]

/-- what is left in the buffer after draining cannot be drained further -/
theorem drain_left_is_stuck (max : Nat) : ∀ (n : Nat) (b r : Bs), b.length < n → (drainFull max b).2 = some r →
    drainFull max r = ([], some r) := by
  intro n
  induction n with
  | zero => intro b r h; omega
  | succ n ih =>
    intro b r hb h
    rw [drainFull_unfold max b] at h
    cases hp : parseOne max b with
    | more =>
      simp only [stepOut, hp] at h
      injection h with h
      subst h
      rw [drainFull_unfold max b]; simp [stepOut, hp]
    | malformed => simp [stepOut, hp] at h
    | packet cb body rest =>
      have hs := parseOne_packet_shorter max b cb body rest hp
      simp only [stepOut, hp] at h
      by_cases hv : validHeader cb
      · simp only [hv, Bool.not_true, Bool.false_eq_true, if_false] at h
        by_cases h13 : cb / 16 = 13
        · simp only [h13, if_true] at h; exact ih rest r (by omega) h
        · simp only [h13, if_false] at h
          by_cases hr : cb / 16 ≠ 3 ∧ cb / 16 ≠ 15 ∧ cb / 16 ≠ 14
          · rw [if_pos hr] at h
            by_cases hl : body.length < 2
            · simp [hl] at h
            · simp only [hl, if_false, consEv] at h
              exact ih rest r (by omega) h
          · rw [if_neg hr] at h; simp only [consEv] at h
            exact ih rest r (by omega) h
      · simp [hv] at h

theorem feedAll_none (max : Nat) (cs : List Bs) : feedAll max none cs = ([], none) := by
  induction cs with
  | nil => rfl
  | cons c cs ih => simp [feedAll, feed, ih]

end Mqtt5V.Proofs.Frame
