import Mqtt5V.Proofs.TraceIn
/-! Message conservation in the composed inbound model: what is delivered was received (C04). -/
namespace Mqtt5V.Proofs.TraceIn
open Mqtt5V.Model.TraceIn


/-! ### message conservation: what is delivered was received, no more often than received -/
def qcM (q : List (Nat × Nat)) (p m : Nat) : Nat := q.countP (fun x => x.1 == p && x.2 == m)
def isAckM (p m : Nat) : Item → Bool | .ackI p' m' => p' == p && m' == m | _ => false
def isRecM (p m : Nat) : Item → Bool | .recI p' m' => p' == p && m' == m | _ => false
def isCompM (p m : Nat) : Item → Bool | .compI p' m' => p' == p && m' == m | _ => false
def storedM (s : S) (q p m : Nat) : Nat := s.stored.countP (fun x => x.1 == q && x.2.1 == p && x.2.2 == m)
def waitM (s : S) (p m : Nat) : Nat := (s.waiter p == some m).toNat

/-- the places where the client holds message `m` of the exchange with identifier `p`, by QoS -/
def hold (s : S) (rem : List Item) (q p m : Nat) : Nat :=
  storedM s q p m +
  (if q = 1 then qcM s.ackQ p m + rem.countP (isAckM p m) else 0) +
  (if q = 2 then qcM s.recQ p m + rem.countP (isRecM p m) + waitM s p m + qcM s.compQ p m + rem.countP (isCompM p m) else 0)

def InvM (hist : List Ev) (s : S) (rem : List Item) : Prop :=
  ∀ q p m, m ≠ 0 → cnt (isDeliverMsg q p m) hist + hold s rem q p m ≤ cnt (isRxPubMsg q p m) hist

theorem invM_step {hist : List Ev} {s s' : S} {rem rem' : List Item} {e : Ev} (I : InvM hist s rem)
    (h : ∀ q p m, m ≠ 0 → (isDeliverMsg q p m e).toNat + hold s' rem' q p m ≤ hold s rem q p m + (isRxPubMsg q p m e).toNat) :
    InvM (hist ++ [e]) s' rem' := by
  intro q p m hm; have := I q p m hm; have := h q p m hm; simp only [cnt_snoc']; omega

theorem invM_weaken {hist : List Ev} {s s' : S} {rem rem' : List Item} (I : InvM hist s rem)
    (h : ∀ q p m, m ≠ 0 → hold s' rem' q p m ≤ hold s rem q p m) : InvM hist s' rem' := by
  intro q p m hm; have := I q p m hm; have := h q p m hm; omega

theorem qcM_append (q : List (Nat × Nat)) (x : Nat × Nat) (p m : Nat) : qcM (q ++ [x]) p m = qcM q p m + (x.1 == p && x.2 == m).toNat := by
  simp only [qcM, List.countP_append, List.countP_cons, List.countP_nil]
  cases (x.1 == p && x.2 == m) <;> simp

theorem storedM_append (st : List (Nat × Nat × Nat)) (x : Nat × Nat × Nat) (q p m : Nat) :
    List.countP (fun x => x.1 == q && x.2.1 == p && x.2.2 == m) (st ++ [x]) =
      List.countP (fun x => x.1 == q && x.2.1 == p && x.2.2 == m) st + (x.1 == q && x.2.1 == p && x.2.2 == m).toNat := by
  simp only [List.countP_append, List.countP_cons, List.countP_nil]
  cases (x.1 == q && x.2.1 == p && x.2.2 == m) <;> simp

theorem pop_specM {q : List (Nat × Nat)} {pid m : Nat} {rest : List (Nat × Nat)} (h : pop q pid = some (m, rest)) :
    ∀ p m', qcM q p m' = qcM rest p m' + (pid == p && m == m').toNat := by
  rw [pop_head h]
  intro p m'; simp only [qcM, List.countP_cons]
  cases (pid == p && m == m') <;> simp

/-- `wait_pubrel` holds the message in the waiter or, with a fast PUBREL, in the PUBCOMP queue; an older waiter's message is dropped -/
theorem waitRel_hold (s : S) (pid msg : Nat) (rem : List Item) (q p m : Nat) :
    hold (waitRel s pid msg) rem q p m ≤ hold s rem q p m + (q == 2 && pid == p && msg == m).toNat := by
  unfold waitRel
  split
  · simp only [hold, storedM, waitM, qcM_append, upd]
    by_cases hq : q = 2
    · subst hq; simp only [if_true]
      by_cases hp : p = pid
      · subst hp; simp; cases hm : (msg == m) <;> simp <;> omega
      · have h1 : (pid == p) = false := by simpa using fun h : pid = p => hp h.symm
        simp [hp, h1]
    · have : (q == 2) = false := by simpa using hq
      simp [hq, this]
  · simp only [hold, storedM, waitM, upd]
    by_cases hq : q = 2
    · subst hq; simp only [if_true]
      by_cases hp : p = pid
      · subst hp; simp
        cases hm : (msg == m)
        · have : ¬ msg = m := by simpa using hm
          simp [this]
        · have : msg = m := by simpa using hm
          subst this; simp; cases (s.waiter p == some msg) <;> simp <;> omega
      · have h1 : (pid == p) = false := by simpa using fun h : pid = p => hp h.symm
        simp [hp, h1]
    · have : (q == 2) = false := by simpa using hq
      simp [hq, this]




def itemW (it : Item) (q p m : Nat) : Nat :=
  match it with
  | .ackI p' m' => (q == 1 && p' == p && m' == m).toNat
  | .recI p' m' => (q == 2 && p' == p && m' == m).toNat
  | .compI p' m' => (q == 2 && p' == p && m' == m).toNat

theorem countP_cons_toNat {α : Type} (P : α → Bool) (x : α) (l : List α) : (x :: l).countP P = l.countP P + (P x).toNat := by
  simp only [List.countP_cons]; cases P x <;> simp

theorem hold_cons (s : S) (it : Item) (rest : List Item) (q p m : Nat) : hold s (it :: rest) q p m = hold s rest q p m + itemW it q p m := by
  simp only [hold, countP_cons_toNat, itemW]
  by_cases h1 : q = 1
  · subst h1; cases it <;> simp [isAckM, isRecM, isCompM] <;> omega
  · by_cases h2 : q = 2
    · subst h2; cases it <;> simp [isAckM, isRecM, isCompM] <;> omega
    · have e1 : (q == 1) = false := by simpa using h1
      have e2 : (q == 2) = false := by simpa using h2
      cases it <;> simp [h1, h2, e1, e2]

theorem hold_stored (s : S) (x : Nat × Nat × Nat) (rem : List Item) (q p m : Nat) :
    hold { s with stored := s.stored ++ [x] } rem q p m = hold s rem q p m + (x.1 == q && x.2.1 == p && x.2.2 == m).toNat := by
  simp only [hold, storedM, storedM_append, waitM]; omega

theorem beq_comm3 (a q : Nat) (x y : Bool) : (a == q && x && y) = (q == a && x && y) := by
  have : (a == q) = (q == a) := by
    by_cases h : a = q
    · subst h; rfl
    · have h1 : (a == q) = false := by simpa using h
      have h2 : (q == a) = false := by simpa using fun e : q = a => h e.symm
      rw [h1, h2]
  rw [this]

theorem finishOk_invM {hist : List Ev} {s : S} {it : Item} {rest : List Item} (I : InvM hist s (it :: rest)) : InvM hist (finishOk s it) rest := by
  refine invM_weaken I ?_
  intro q p m _hm; rw [hold_cons]
  cases it with
  | ackI pid msg =>
    simp only [finishOk, hold_stored, itemW]
    rw [beq_comm3 1 q]; omega
  | recI pid msg => simp only [finishOk, itemW]; exact waitRel_hold s pid msg rest q p m
  | compI pid msg =>
    simp only [finishOk, hold_stored, itemW]
    rw [beq_comm3 2 q]; omega

theorem finishFail_invM {hist : List Ev} {s : S} {it : Item} {rest : List Item} (I : InvM hist s (it :: rest)) : InvM hist (finishFail s it) rest := by
  refine invM_weaken I ?_
  intro q p m _hm; rw [hold_cons]
  cases it with
  | ackI pid msg => simp only [finishFail]; omega
  | recI pid msg => simp only [finishFail]; omega
  | compI pid msg => simp only [finishFail, itemW]; exact waitRel_hold s pid msg rest q p m

theorem drain_invM {hist : List Ev} (f : S → Item → S) (hf : ∀ s it rest, InvM hist s (it :: rest) → InvM hist (f s it) rest) :
    ∀ (items tail : List Item) (s : S), InvM hist s (items ++ tail) → InvM hist (drain f s items) tail := by
  intro items
  induction items with
  | nil => intro tail s I; simpa [drain] using I
  | cons it rest ih => intro tail s I; exact ih tail _ (hf s it (rest ++ tail) (by simpa using I))

theorem compItems_ack (q0 : List (Nat × Nat)) (p m : Nat) : (q0.map fun x => Item.compI x.1 x.2).countP (isAckM p m) = 0 := by
  induction q0 with
  | nil => rfl
  | cons x xs ih => rw [List.map_cons, countP_cons_toNat, ih]; simp [isAckM]

theorem compItems_rec (q0 : List (Nat × Nat)) (p m : Nat) : (q0.map fun x => Item.compI x.1 x.2).countP (isRecM p m) = 0 := by
  induction q0 with
  | nil => rfl
  | cons x xs ih => rw [List.map_cons, countP_cons_toNat, ih]; simp [isRecM]

theorem compItems_comp (q0 : List (Nat × Nat)) (p m : Nat) : (q0.map fun x => Item.compI x.1 x.2).countP (isCompM p m) = qcM q0 p m := by
  induction q0 with
  | nil => rfl
  | cons x xs ih => rw [List.map_cons, countP_cons_toNat, ih]; simp only [qcM, countP_cons_toNat, isCompM]

theorem recItems_ack (q0 : List (Nat × Nat)) (p m : Nat) : (q0.map fun x => Item.recI x.1 x.2).countP (isAckM p m) = 0 := by
  induction q0 with
  | nil => rfl
  | cons x xs ih => rw [List.map_cons, countP_cons_toNat, ih]; simp [isAckM]

theorem recItems_comp (q0 : List (Nat × Nat)) (p m : Nat) : (q0.map fun x => Item.recI x.1 x.2).countP (isCompM p m) = 0 := by
  induction q0 with
  | nil => rfl
  | cons x xs ih => rw [List.map_cons, countP_cons_toNat, ih]; simp [isCompM]

theorem recItems_rec (q0 : List (Nat × Nat)) (p m : Nat) : (q0.map fun x => Item.recI x.1 x.2).countP (isRecM p m) = qcM q0 p m := by
  induction q0 with
  | nil => rfl
  | cons x xs ih => rw [List.map_cons, countP_cons_toNat, ih]; simp only [qcM, countP_cons_toNat, isRecM]

theorem hold_append_comp (s : S) (q0 : List (Nat × Nat)) (rem : List Item) (q p m : Nat) :
    hold { s with ackQ := [], recQ := [], compQ := [] } ((q0.map fun x => Item.compI x.1 x.2) ++ rem) q p m
      ≤ hold { s with compQ := q0 } rem q p m := by
  simp only [hold, storedM, waitM, List.countP_append, compItems_ack, compItems_rec, compItems_comp]
  simp only [qcM, List.countP_nil]
  split <;> split <;> omega

def InvMsg (hist : List Ev) (s : S) : Prop := InvM hist s s.batch

theorem invMsg_init : InvMsg [] init := by
  intro q p m _hm; simp [cnt, init, hold, storedM, qcM, waitM]

theorem hold_congr {s s' : S} {rem : List Item} (h1 : s'.stored = s.stored) (h2 : s'.ackQ = s.ackQ) (h3 : s'.recQ = s.recQ)
    (h4 : s'.compQ = s.compQ) (h5 : s'.waiter = s.waiter) (q p m : Nat) : hold s' rem q p m = hold s rem q p m := by
  simp only [hold, storedM, waitM, h1, h2, h3, h4, h5]

theorem msg_step (hist : List Ev) (s : S) (e : Ev) (s' : S) (I : InvMsg hist s) (h : step s e = some s') : InvMsg (hist ++ [e]) s' := by
  unfold InvMsg at *
  cases e with
  | connUp sp =>
    simp only [step] at h
    have hs : ∀ (s0 : S), s0.ackQ = s.ackQ → s0.recQ = s.recQ → s0.compQ = s.compQ →
        (∀ q p m, m ≠ 0 → storedM s0 q p m = storedM s q p m) → s0.batch = s.batch →
        (∀ p m, waitM s0 p m ≤ waitM s p m) →
        InvM (hist ++ [Ev.connUp sp]) (requeue s0) (requeue s0).batch := by
      intro s0 e1 e2 e3 e5 e6 e7
      have hb : (requeue s0).batch = s0.batch := by
        unfold requeue; rw [drain_batch _ (fun s it => finishFail_batch s it)]
      rw [hb]
      unfold requeue
      apply drain_invM (fun s it => finishFail s it) (fun s it rest => finishFail_invM) _ s0.batch
      refine invM_step I ?_
      intro q p m hm
      have h1 : hold { s0 with ackQ := [], recQ := [], compQ := [] } ((s0.compQ.map fun x => Item.compI x.1 x.2) ++ s0.batch) q p m
          ≤ hold s0 s0.batch q p m := hold_append_comp s0 s0.compQ s0.batch q p m
      have h2 : hold s0 s0.batch q p m ≤ hold s s.batch q p m := by
        have := e7 p m
        have h5 := e5 q p m hm
        simp only [hold, e1, e2, e3, e6, h5]
        split <;> split <;> omega
      simp only [isDeliverMsg, isRxPubMsg, Bool.toNat_false]; omega
    split at h
    · simp only [Option.some.injEq] at h; subst h
      exact hs s rfl rfl rfl (fun _ _ _ _ => rfl) rfl (fun _ _ => Nat.le_refl _)
    · simp only [Option.some.injEq] at h; subst h
      refine hs _ rfl rfl rfl ?_ rfl (by intro p m; simp [waitM])
      intro q p m hm
      simp only [storedM]; split
      · rw [storedM_append]
        have : ((9 : Nat) == q && (0 : Nat) == p && (0 : Nat) == m) = false := by
          have : ((0 : Nat) == m) = false := by simpa using fun h : 0 = m => hm h.symm
          simp [this]
        simp [this]
      · rfl
  | rxPub qos pid msg =>
    simp only [step] at h
    split at h
    · rename_i hq; subst hq
      simp only [Option.some.injEq] at h; subst h
      refine invM_step I ?_
      intro q p m _hm; rw [hold_stored]
      simp only [isDeliverMsg, isRxPubMsg, Bool.toNat_false]
      rw [beq_comm3 0 q]; omega
    · split at h
      · rename_i hq; subst hq
        simp only [Option.some.injEq] at h; subst h
        refine invM_step I ?_
        intro q p m _hm
        simp only [isDeliverMsg, isRxPubMsg, Bool.toNat_false, hold, storedM, waitM, qcM_append]
        by_cases h1 : q = 1
        · subst h1; simp; omega
        · have e1 : (1 == q) = false := by simpa using fun e : 1 = q => h1 e.symm
          simp [h1, e1]
      · split at h
        · rename_i hq; subst hq
          simp only [Option.some.injEq] at h; subst h
          refine invM_step I ?_
          intro q p m _hm
          simp only [isDeliverMsg, isRxPubMsg, Bool.toNat_false, hold, storedM, waitM, qcM_append]
          by_cases h2 : q = 2
          · subst h2; simp; omega
          · have e2 : (2 == q) = false := by simpa using fun e : 2 = q => h2 e.symm
            simp [h2, e2]
        · simp at h
  | rxRel pid good =>
    simp only [step] at h
    split at h
    · simp only [Option.some.injEq] at h; subst h
      refine invM_step I ?_
      intro q p m _hm; simp [isDeliverMsg, isRxPubMsg]
    · split at h
      · rename_i m0 hm
        simp only [Option.some.injEq] at h; subst h
        refine invM_step I ?_
        intro q p m _hm
        simp only [isDeliverMsg, isRxPubMsg, Bool.toNat_false, hold, storedM, waitM, qcM_append, upd]
        by_cases h2 : q = 2
        · subst h2; simp only [if_true]
          by_cases hp : p = pid
          · subst hp; simp [hm]
            by_cases hmm : m0 = m
            · subst hmm; simp; omega
            · have : (m0 == m) = false := by simpa using hmm
              simp [hmm, this]
          · have h1 : (pid == p) = false := by simpa using fun e : pid = p => hp e.symm
            simp [hp, h1]
        · simp [h2]
      · simp only [Option.some.injEq] at h; subst h
        refine invM_step I ?_
        intro q p m _hm; simp only [isDeliverMsg, isRxPubMsg, Bool.toNat_false, Nat.zero_add, Nat.add_zero]; exact Nat.le_of_eq (hold_congr rfl rfl rfl rfl rfl q p m)
  | wr =>
    simp only [step] at h; split at h
    · simp at h
    · simp only [Option.some.injEq] at h; subst h
      refine invM_step I ?_
      intro q p m _hm; simp only [isDeliverMsg, isRxPubMsg, Bool.toNat_false, Nat.zero_add, Nat.add_zero]; exact Nat.le_of_eq (hold_congr rfl rfl rfl rfl rfl q p m)
  | pk p0 =>
    simp only [step] at h; split at h
    · cases p0 with
      | puback pid =>
        simp only [stepPk, Option.map_eq_some_iff] at h
        obtain ⟨⟨m0, rest⟩, hp, rfl⟩ := h
        have hq := pop_specM hp
        refine invM_step I ?_
        intro q p m _hm; have := hq p m
        simp only [isDeliverMsg, isRxPubMsg, Bool.toNat_false, hold, storedM, waitM, List.countP_append, countP_cons_toNat, List.countP_nil, isAckM, isRecM, isCompM]
        split <;> split <;> simp <;> omega
      | pubrec pid =>
        simp only [stepPk, Option.map_eq_some_iff] at h
        obtain ⟨⟨m0, rest⟩, hp, rfl⟩ := h
        have hq := pop_specM hp
        refine invM_step I ?_
        intro q p m _hm; have := hq p m
        simp only [isDeliverMsg, isRxPubMsg, Bool.toNat_false, hold, storedM, waitM, List.countP_append, countP_cons_toNat, List.countP_nil, isAckM, isRecM, isCompM]
        split <;> split <;> simp <;> omega
      | pubcomp pid =>
        simp only [stepPk, Option.map_eq_some_iff] at h
        obtain ⟨⟨m0, rest⟩, hp, rfl⟩ := h
        have hq := pop_specM hp
        refine invM_step I ?_
        intro q p m _hm; have := hq p m
        simp only [isDeliverMsg, isRxPubMsg, Bool.toNat_false, hold, storedM, waitM, List.countP_append, countP_cons_toNat, List.countP_nil, isAckM, isRecM, isCompM]
        split <;> split <;> simp <;> omega
      | other =>
        simp only [stepPk, Option.some.injEq] at h; subst h
        refine invM_step I ?_
        intro q p m _hm; simp [isDeliverMsg, isRxPubMsg]
    · simp at h
  | wrOk =>
    simp only [step] at h; split at h
    · simp only [Option.some.injEq] at h; subst h
      rw [drain_batch _ finishOk_batch]
      apply drain_invM finishOk (fun s it rest => finishOk_invM) s.batch []
      simp only [List.append_nil]
      refine invM_step I ?_
      intro q p m _hm; simp only [isDeliverMsg, isRxPubMsg, Bool.toNat_false, Nat.zero_add, Nat.add_zero]; exact Nat.le_of_eq (hold_congr rfl rfl rfl rfl rfl q p m)
    · simp at h
  | wrFail =>
    simp only [step] at h; split at h
    · simp only [Option.some.injEq] at h; subst h
      rw [drain_batch _ finishFail_batch]
      apply drain_invM finishFail (fun s it rest => finishFail_invM) s.batch []
      simp only [List.append_nil]
      refine invM_step I ?_
      intro q p m _hm; simp only [isDeliverMsg, isRxPubMsg, Bool.toNat_false, Nat.zero_add, Nat.add_zero]; exact Nat.le_of_eq (hold_congr rfl rfl rfl rfl rfl q p m)
    · simp at h
  | deliver qos pid msg =>
    simp only [step] at h
    split at h
    · rename_i x rest hst
      split at h
      · rename_i hx; subst hx
        simp only [Option.some.injEq] at h; subst h
        refine invM_step I ?_
        intro q p m _hm
        simp only [isDeliverMsg, isRxPubMsg, Bool.toNat_false, hold, storedM, waitM, hst, countP_cons_toNat]
        omega
      · simp at h
    · simp at h
  | reset =>
    simp only [step, Option.some.injEq] at h; subst h
    refine invM_step I ?_
    intro q p m _hm
    simp only [isDeliverMsg, isRxPubMsg, Bool.toNat_false, hold, storedM, waitM, qcM, List.countP_nil]
    split <;> split <;> simp <;> omega

  | subOk =>
    simp only [step, Option.some.injEq] at h; subst h
    refine invM_step I ?_
    intro q p m _hm; simp only [isDeliverMsg, isRxPubMsg, Bool.toNat_false, Nat.zero_add, Nat.add_zero]; exact Nat.le_of_eq (hold_congr rfl rfl rfl rfl rfl q p m)
theorem msg_reach {tr : List Ev} {s : S} (h : run init tr = some s) : InvMsg tr s :=
  inv_reach InvMsg invMsg_init msg_step tr s h

/-- **C04 on accepted event lists**: a message is handed to the application at most as often as a PUBLISH with exactly this QoS,
identifier and content (topic, payload, properties) was received -/
theorem delivered_was_received {tr : List Ev} (hacc : accepts tr = true) (pre post : List Ev) (hsplit : tr = pre ++ post) (q p m : Nat) (hm : m ≠ 0) :
    cnt (isDeliverMsg q p m) pre ≤ cnt (isRxPubMsg q p m) pre := by
  obtain ⟨s, hr⟩ := (accepts_iff _).1 hacc
  rw [hsplit] at hr
  obtain ⟨s1, hr1, _⟩ := run_prefix hr
  have := msg_reach hr1 q p m hm
  omega


end Mqtt5V.Proofs.TraceIn
