import Mqtt5V.Proofs.TraceIn5
namespace Mqtt5V.Proofs.TraceIn
open Mqtt5V.Model.TraceIn

def InvMsg (hist : List Ev) (s : S) : Prop := InvM hist s s.batch

theorem invMsg_init : InvMsg [] init := by
  intro q p m; simp [cnt, init, hold, storedM, qcM, waitM]

theorem hold_congr {s s' : S} {rem : List Item} (h1 : s'.stored = s.stored) (h2 : s'.ackQ = s.ackQ) (h3 : s'.recQ = s.recQ)
    (h4 : s'.compQ = s.compQ) (h5 : s'.waiter = s.waiter) (q p m : Nat) : hold s' rem q p m = hold s rem q p m := by
  simp only [hold, storedM, waitM, h1, h2, h3, h4, h5]

theorem msg_step (hist : List Ev) (s : S) (e : Ev) (s' : S) (I : InvMsg hist s) (h : step s e = some s') : InvMsg (hist ++ [e]) s' := by
  unfold InvMsg at *
  cases e with
  | connUp sp =>
    simp only [step, Option.some.injEq] at h; subst h
    have hs : ∀ (s0 : S), s0.ackQ = s.ackQ → s0.recQ = s.recQ → s0.compQ = s.compQ → s0.stored = s.stored → s0.batch = s.batch →
        (∀ p m, waitM s0 p m ≤ waitM s p m) →
        InvM (hist ++ [Ev.connUp sp]) (requeue s0) (requeue s0).batch := by
      intro s0 e1 e2 e3 e5 e6 e7
      have hb : (requeue s0).batch = s0.batch := by
        unfold requeue; rw [drain_batch _ (fun s it => finishFail_batch s it)]
      rw [hb]
      unfold requeue
      apply drain_invM (fun s it => finishFail s it) (fun s it rest => finishFail_invM) _ s0.batch
      refine invM_step I ?_
      intro q p m
      have h1 : hold { s0 with ackQ := [], recQ := [], compQ := [] } (((s0.recQ.map fun x => Item.recI x.1 x.2) ++ (s0.compQ.map fun x => Item.compI x.1 x.2)) ++ s0.batch) q p m
          ≤ hold s0 s0.batch q p m := hold_append_comp s0 s0.recQ s0.compQ s0.batch q p m
      have h2 : hold s0 s0.batch q p m ≤ hold s s.batch q p m := by
        have := e7 p m
        simp only [hold, storedM, e1, e2, e3, e5, e6]
        split <;> split <;> omega
      simp only [isDeliverMsg, isRxPubMsg, Bool.toNat_false]; omega
    split
    · exact hs s rfl rfl rfl rfl rfl (fun _ _ => Nat.le_refl _)
    · exact hs _ rfl rfl rfl rfl rfl (by intro p m; simp [waitM])
  | rxPub qos pid msg =>
    simp only [step] at h
    split at h
    · rename_i hq; subst hq
      simp only [Option.some.injEq] at h; subst h
      refine invM_step I ?_
      intro q p m; rw [hold_stored]
      simp only [isDeliverMsg, isRxPubMsg, Bool.toNat_false]
      rw [beq_comm3 0 q]; omega
    · split at h
      · rename_i hq; subst hq
        simp only [Option.some.injEq] at h; subst h
        refine invM_step I ?_
        intro q p m
        simp only [isDeliverMsg, isRxPubMsg, Bool.toNat_false, hold, storedM, waitM, qcM_append]
        by_cases h1 : q = 1
        · subst h1; simp; omega
        · have e1 : (1 == q) = false := by simpa using fun e : 1 = q => h1 e.symm
          simp [h1, e1]
      · split at h
        · rename_i hq; subst hq
          simp only [Option.some.injEq] at h; subst h
          refine invM_step I ?_
          intro q p m
          simp only [isDeliverMsg, isRxPubMsg, Bool.toNat_false, hold, storedM, waitM, qcM_append]
          by_cases h2 : q = 2
          · subst h2; simp; omega
          · have e2 : (2 == q) = false := by simpa using fun e : 2 = q => h2 e.symm
            simp [h2, e2]
        · simp at h
  | rxRel pid good =>
    simp only [step] at h
    split at h
    · simp only [Option.some.injEq] at h; subst h
      refine invM_step I ?_
      intro q p m; simp [isDeliverMsg, isRxPubMsg]
    · split at h
      · rename_i m0 hm
        simp only [Option.some.injEq] at h; subst h
        refine invM_step I ?_
        intro q p m
        simp only [isDeliverMsg, isRxPubMsg, Bool.toNat_false, hold, storedM, waitM, qcM_append, upd]
        by_cases h2 : q = 2
        · subst h2; simp only [if_true]
          by_cases hp : p = pid
          · subst hp; simp [hm]
            by_cases hmm : m0 = m
            · subst hmm; simp; omega
            · have : (m0 == m) = false := by simpa using hmm
              simp [hmm, this]
          · have h1 : (pid == p) = false := by simpa using fun e : pid = p => hp e.symm
            simp [hp, h1]
        · simp [h2]
      · simp only [Option.some.injEq] at h; subst h
        refine invM_step I ?_
        intro q p m; simp only [isDeliverMsg, isRxPubMsg, Bool.toNat_false, Nat.zero_add, Nat.add_zero]; exact Nat.le_of_eq (hold_congr rfl rfl rfl rfl rfl q p m)
  | wr =>
    simp only [step] at h; split at h
    · simp at h
    · simp only [Option.some.injEq] at h; subst h
      refine invM_step I ?_
      intro q p m; simp only [isDeliverMsg, isRxPubMsg, Bool.toNat_false, Nat.zero_add, Nat.add_zero]; exact Nat.le_of_eq (hold_congr rfl rfl rfl rfl rfl q p m)
  | pk p0 =>
    simp only [step] at h; split at h
    · cases p0 with
      | puback pid =>
        simp only [stepPk, Option.map_eq_some_iff] at h
        obtain ⟨⟨m0, rest⟩, hp, rfl⟩ := h
        have hq := pop_specM hp
        refine invM_step I ?_
        intro q p m; have := hq p m
        simp only [isDeliverMsg, isRxPubMsg, Bool.toNat_false, hold, storedM, waitM, List.countP_append, countP_cons_toNat, List.countP_nil, isAckM, isRecM, isCompM]
        split <;> split <;> simp <;> omega
      | pubrec pid =>
        simp only [stepPk, Option.map_eq_some_iff] at h
        obtain ⟨⟨m0, rest⟩, hp, rfl⟩ := h
        have hq := pop_specM hp
        refine invM_step I ?_
        intro q p m; have := hq p m
        simp only [isDeliverMsg, isRxPubMsg, Bool.toNat_false, hold, storedM, waitM, List.countP_append, countP_cons_toNat, List.countP_nil, isAckM, isRecM, isCompM]
        split <;> split <;> simp <;> omega
      | pubcomp pid =>
        simp only [stepPk, Option.map_eq_some_iff] at h
        obtain ⟨⟨m0, rest⟩, hp, rfl⟩ := h
        have hq := pop_specM hp
        refine invM_step I ?_
        intro q p m; have := hq p m
        simp only [isDeliverMsg, isRxPubMsg, Bool.toNat_false, hold, storedM, waitM, List.countP_append, countP_cons_toNat, List.countP_nil, isAckM, isRecM, isCompM]
        split <;> split <;> simp <;> omega
      | other =>
        simp only [stepPk, Option.some.injEq] at h; subst h
        refine invM_step I ?_
        intro q p m; simp [isDeliverMsg, isRxPubMsg]
    · simp at h
  | wrOk =>
    simp only [step] at h; split at h
    · simp only [Option.some.injEq] at h; subst h
      rw [drain_batch _ finishOk_batch]
      apply drain_invM finishOk (fun s it rest => finishOk_invM) s.batch []
      simp only [List.append_nil]
      refine invM_step I ?_
      intro q p m; simp only [isDeliverMsg, isRxPubMsg, Bool.toNat_false, Nat.zero_add, Nat.add_zero]; exact Nat.le_of_eq (hold_congr rfl rfl rfl rfl rfl q p m)
    · simp at h
  | wrFail =>
    simp only [step] at h; split at h
    · simp only [Option.some.injEq] at h; subst h
      rw [drain_batch _ finishFail_batch]
      apply drain_invM finishFail (fun s it rest => finishFail_invM) s.batch []
      simp only [List.append_nil]
      refine invM_step I ?_
      intro q p m; simp only [isDeliverMsg, isRxPubMsg, Bool.toNat_false, Nat.zero_add, Nat.add_zero]; exact Nat.le_of_eq (hold_congr rfl rfl rfl rfl rfl q p m)
    · simp at h
  | deliver qos pid msg =>
    simp only [step] at h
    split at h
    · rename_i x rest hst
      split at h
      · rename_i hx; subst hx
        simp only [Option.some.injEq] at h; subst h
        refine invM_step I ?_
        intro q p m
        simp only [isDeliverMsg, isRxPubMsg, Bool.toNat_false, hold, storedM, waitM, hst, countP_cons_toNat]
        omega
      · simp at h
    · simp at h
  | reset =>
    simp only [step, Option.some.injEq] at h; subst h
    refine invM_step I ?_
    intro q p m
    simp only [isDeliverMsg, isRxPubMsg, Bool.toNat_false, hold, storedM, waitM, qcM, List.countP_nil]
    split <;> split <;> simp <;> omega

theorem msg_reach {tr : List Ev} {s : S} (h : run init tr = some s) : InvMsg tr s :=
  inv_reach InvMsg invMsg_init msg_step tr s h

/-- **C04 on accepted event lists**: a message is handed to the application at most as often as a PUBLISH with exactly this QoS,
identifier and content (topic, payload, properties) was received -/
theorem delivered_was_received {tr : List Ev} (hacc : accepts tr = true) (pre post : List Ev) (hsplit : tr = pre ++ post) (q p m : Nat) :
    cnt (isDeliverMsg q p m) pre ≤ cnt (isRxPubMsg q p m) pre := by
  obtain ⟨s, hr⟩ := (accepts_iff _).1 hacc
  rw [hsplit] at hr
  obtain ⟨s1, hr1, _⟩ := run_prefix hr
  have := msg_reach hr1 q p m
  omega

end Mqtt5V.Proofs.TraceIn
