import Mqtt5V.Model.TraceIn
namespace Mqtt5V.Proofs.TraceIn
open Mqtt5V.Model.TraceIn

theorem run_append (s : S) (a b : List Ev) : run s (a ++ b) = (run s a).bind (run · b) := by
  induction a generalizing s with
  | nil => simp [run]
  | cons e es ih =>
    simp only [List.cons_append, run]
    cases step s e with
    | none => simp
    | some s1 => simp [ih]

theorem run_prefix {s : S} {a b : List Ev} {s' : S} (h : run s (a ++ b) = some s') : ∃ s1, run s a = some s1 ∧ run s1 b = some s' := by
  rw [run_append] at h
  cases h1 : run s a with
  | none => simp [h1] at h
  | some s1 => exact ⟨s1, rfl, by simpa [h1] using h⟩

theorem inv_run (I : List Ev → S → Prop)
    (hstep : ∀ h s e s', I h s → step s e = some s' → I (h ++ [e]) s') :
    ∀ (tr pre : List Ev) (s s' : S), I pre s → run s tr = some s' → I (pre ++ tr) s' := by
  intro tr
  induction tr with
  | nil => intro pre s s' hI hr; simp [run] at hr; subst hr; simpa using hI
  | cons e es ih =>
    intro pre s s' hI hr
    simp only [run] at hr
    cases h1 : step s e with
    | none => simp [h1] at hr
    | some s1 =>
      simp [h1] at hr
      have := ih (pre ++ [e]) s1 s' (hstep pre s e s1 hI h1) hr
      simpa [List.append_assoc] using this

theorem inv_reach (I : List Ev → S → Prop) (h0 : I [] init)
    (hstep : ∀ h s e s', I h s → step s e = some s' → I (h ++ [e]) s') :
    ∀ tr s, run init tr = some s → I tr s := by
  intro tr s hr
  simpa using inv_run I hstep tr [] init s h0 hr

theorem accepts_iff (tr : List Ev) : accepts tr = true ↔ ∃ s, run init tr = some s := by
  simp [accepts, Option.isSome_iff_exists]

/-! ### counting -/
def qcount (q : List (Nat × Nat)) (p : Nat) : Nat := q.countP (fun x => x.1 == p)
def qcountM (q : List (Nat × Nat)) (p m : Nat) : Nat := q.countP (fun x => x.1 == p && x.2 == m)

def isAckI (p : Nat) : Item → Bool | .ackI q _ => q == p | _ => false
def isRecI (p : Nat) : Item → Bool | .recI q _ => q == p | _ => false
def isCompI (p : Nat) : Item → Bool | .compI q _ => q == p | _ => false

theorem cnt_snoc (P : Ev → Bool) (h : List Ev) (e : Ev) : cnt P (h ++ [e]) = cnt P h + (if P e then 1 else 0) := by
  simp [cnt, List.countP_append, List.countP_cons]

theorem pop_head {q : List (Nat × Nat)} {pid m : Nat} {rest : List (Nat × Nat)} (h : pop q pid = some (m, rest)) : q = (pid, m) :: rest := by
  cases q with
  | nil => simp [pop] at h
  | cons x xs =>
    obtain ⟨p0, m0⟩ := x
    simp only [pop] at h
    split at h
    · rename_i hp; simp only [Option.some.injEq, Prod.mk.injEq] at h; obtain ⟨rfl, rfl⟩ := h; rw [hp]
    · simp at h

theorem pop_spec {q : List (Nat × Nat)} {pid m : Nat} {rest : List (Nat × Nat)} (h : pop q pid = some (m, rest)) :
    ∀ p, qcount q p = qcount rest p + (if p = pid then 1 else 0) := by
  rw [pop_head h]
  intro p; simp only [qcount, List.countP_cons]
  by_cases hpp : p = pid
  · subst hpp; simp
  · have : ¬ (pid = p) := fun h => hpp h.symm
    simp [hpp, this]

end Mqtt5V.Proofs.TraceIn
