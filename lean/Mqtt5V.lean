import Mqtt5V.Basic
import Mqtt5V.Props.C20
import Mqtt5V.Model.Trace
